#!/usr/bin/env python3
"""Write the task file a sub-agent gets in the sensitivity experiments (DESIGN.md section 10).

  tools/gen_seed_tasks.py <scratch-root> [round]

For every property of properties.jsonl: `git -C /repo worktree add --detach <scratch-root>/<ID> HEAD` must have been done
first; this writes <scratch-root>/<ID>/TASK.md (round 1) or TASK<round>.md (later rounds: the summaries of the earlier
deliveries under out/, out2/, ... are listed as "already taken").  The agent is started with nothing but
"Read <scratch-root>/<ID>/TASK.md and carry out exactly the task it describes; work only inside that directory; do not read
anything under /verif or /repo."  Deliveries are evaluated with tools/mutant_queue.sh / tools/try_mutant.py and collected with
tools/seed_collect.py; remove the worktrees afterwards (git -C /repo worktree remove --force ...).
"""
import json, os, sys

ROOT = os.path.dirname(os.path.dirname(os.path.abspath(__file__)))
scratch = sys.argv[1]
rnd = int(sys.argv[2]) if len(sys.argv) > 2 else 1
sub = 'out' if rnd == 1 else 'out%d' % rnd
count = {1: 'THREE', 2: 'THREE'}.get(rnd, 'TWO')

T = '''# Task: seed a subtle defect into the ipr library that breaks ONE stated property

You are working in a scratch git worktree of the GabrielDosReis/ipr C++ library (a compiler-neutral, hash-consed
internal representation for C++ programs: node factories, string interning, visitors, pretty printer):

    {wt}

Work ONLY inside that directory.  Do not read or write anything under /verif or /repo (the worktree is your copy;
other agents work in sibling directories -- leave those alone too).  There is no network.

## The property (a semantic guarantee users of ipr rely on)

**{id} -- {title}**

{statement}

Where the behaviour lives (pointers into the source; line numbers approximate):
{anchors}
{taken}
## What to produce

{count} independent source changes ("mutants") to the library (files under `include/ipr/` and `src/` only), each of which

1. still **compiles** and still **passes the existing test suite unchanged**:
   `cmake -G Ninja -S {wt} -B {wt}/_build && cmake --build {wt}/_build && ctest --test-dir {wt}/_build -j8`
   (17 doctest cases; they must all pass with your change applied; do not edit tests or CMake files);
2. **breaks the property above** -- i.e. there is some input / sequence of API calls / history for which the stated
   guarantee no longer holds;
3. is **realistic**: the kind of slip a maintainer could make in a refactoring, an "optimisation", an off-by-one, a
   wrong comparator / key, a forgotten case, a stale cache, a mis-ordered pair of arguments ... not sabotage like
   `if (x == 42) abort()`, and not something that depends on a magic constant you invented;
4. **needs something specific to manifest** -- NOT something ordinary use would expose at once.  Good: shows only
   after a particular multi-step sequence of operations; only for an unusual input (a boundary length, a rare node
   kind, a particular combination of arguments); only after a table has grown / rebalanced; only when two features
   are combined; two cooperating sites that each look fine alone; only under a particular thread interleaving
   (if the property is about threads).  Bad: every call of a common factory is now wrong.
5. The mutants must have **different root causes** and sit in different functions (ideally different
   mechanisms of the property), and each must be a *small* diff (typically 1-15 lines).

For each mutant k write, under `{wt}/{sub}/m<k>/`:

* `patch.diff` -- `git diff` of the library against the clean HEAD of the worktree (only include/ and src/ files), applying
  cleanly with `git apply` on a clean checkout;
* `demo.cxx` -- a small stand-alone C++20 program (own `main`, no test framework needed) that uses the public ipr API
  (`<ipr/impl>`, `<ipr/io>`, ...), exits 0 and prints `PASS` on the unmodified library, and exits non-zero printing
  `FAIL: <what>` with the mutant applied.  It must demonstrate a violation *of the property as stated* (not merely
  that the code differs).  Build line to use (library built by the cmake command above):
  `g++ -std=c++20 -O1 -I{wt}/include demo.cxx {wt}/_build/libipr.a -o demo`   (add `-pthread` / `-fsanitize=...` if the demo needs it; then say so);
* `meta.json` -- {{"property": "{id}", "summary": "<one line: what was changed>", "files": [...],
  "needs": "<what specific input / sequence / state is required for the defect to manifest>",
  "why_tests_pass": "<why the 17 existing tests do not notice>",
  "demo_build": "<exact command>", "verified": {{"tests_pass_with_patch": true, "demo_fails_with_patch": true, "demo_passes_without_patch": true}}}}

You must actually verify all three facts for each mutant (build with the patch, run ctest, run the demo; `git checkout --
include src` to get back to clean, rebuild, run the demo again).  When everything is done leave the worktree clean (the
`out*/` directories and `_build/` are untracked and may stay; do not modify deliveries of earlier rounds).

Notes on the code base that save time: the implementation classes are in `include/ipr/impl` (namespace `ipr::impl`),
the abstract interface in `include/ipr/interface`; you build graphs with `ipr::impl::Lexicon lexicon;` and
`ipr::impl::Translation_unit unit{{lexicon}};` (see `tests/unit-tests/*.cxx` for usage examples).  A full library
rebuild takes ~1 minute.  Two factories are declared but never defined (`expr_factory::make_annotation`,
`Lexicon::make_token`) -- do not use them.

Finish with a short report: for each mutant, one paragraph (what, where, what it needs to manifest, evidence you ran).
If you cannot find that many, deliver as many as you can verify; quality (subtle, realistic, verified) matters more than count.
'''

TAKEN = '''
## Already taken -- do NOT repeat these or close variants of them

Earlier rounds produced the following changes for this property.  Yours must have different root causes, in different
functions, and preferably attack *other mechanisms / other clauses* of the property statement than these did (re-read the
statement: every sentence of it is a separate promise that can be broken).  Favour triggers that need a *combination* of
rarely combined features, a *state reached only after several specific steps*, or an *unusual but legal argument value*.

{items}
'''

for line in open(os.path.join(ROOT, 'properties.jsonl')):
    p = json.loads(line)
    wt = os.path.join(scratch, p['id'])
    if not os.path.isdir(wt):
        continue
    a = p['anchors']
    anchors = ['* %s -- `%s`' % (m['name'], m['where']) for m in a.get('mechanism', [])]
    anchors += ['* state `%s` (%s) -- `%s`' % (s['name'], s['meaning'], s['where']) for s in a.get('state', [])]
    items = []
    for r in range(1, rnd):
        prev = os.path.join(wt, 'out' if r == 1 else 'out%d' % r)
        for k in sorted(os.listdir(prev)) if os.path.isdir(prev) else []:
            try:
                m = json.load(open(os.path.join(prev, k, 'meta.json')))
                items.append('* %s (files: %s)' % (m.get('summary', '').strip()[:300], ', '.join(m.get('files', []))))
            except Exception:
                pass
    taken = TAKEN.format(items='\n'.join(items)) if items else ''
    os.makedirs(os.path.join(wt, sub), exist_ok=True)
    name = 'TASK.md' if rnd == 1 else 'TASK%d.md' % rnd
    open(os.path.join(wt, name), 'w').write(T.format(wt=wt, id=p['id'], title=p['title'], statement=p['statement'], anchors='\n'.join(anchors),
                                                     taken=taken, sub=sub, count=count))
    print('wrote', os.path.join(wt, name))
