#!/usr/bin/env python3
"""Regenerate the table of seeded changes at the end of DESIGN.md section 10 from seeded/*/meta.json."""
import json, os, re
ROOT = os.path.dirname(os.path.dirname(os.path.abspath(__file__)))
rows = []
for d in sorted(os.listdir(ROOT + '/seeded')):
    mp = os.path.join(ROOT, 'seeded', d, 'meta.json')
    if not os.path.exists(mp):
        continue
    m = json.load(open(mp))
    own = m['checks'].get(m['property'], {})
    others = [c for c, v in m['checks'].items() if c != m['property'] and v['caught']]
    notc = [c for c, v in m['checks'].items() if c != m['property'] and not v['caught']]
    sig = (own.get('signatures') or ['-'])[0]
    rows.append('| %s | %s | %s | %s | %s | `%s` |' % (d, m.get('summary', '').replace('|', '/').replace('\n', ' ')[:110], 'yes (%ss)' % own.get('wall_s') if own.get('caught') else '**no**',
                                                     ', '.join(others) or '-', ', '.join(notc) or '-', sig[:70]))
head = ['| change | what was changed (abridged) | own check, quick tier | also caught by | run against, not caught | first signature |', '|---|---|---|---|---|---|']
tab = '\n'.join(head + rows)
p = ROOT + '/DESIGN.md'
s = open(p).read()
i = s.index(head[0])
j = s.index('\n\n', i)
s = s[:i] + tab + s[j:]
open(p, 'w').write(s)
print(len(rows), 'rows;', sum('**no**' in r for r in rows), 'not caught by own check')
