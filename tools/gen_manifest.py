#!/usr/bin/env python3
"""Regenerate /verif/MANIFEST.json from harness/props_table.py (single source of truth)."""
import json, os, sys
ROOT = os.path.dirname(os.path.dirname(os.path.abspath(__file__)))
sys.path.insert(0, os.path.join(ROOT, 'harness'))
from props_table import PROPS
ids = [json.loads(l)['id'] for l in open(os.path.join(ROOT, 'properties.jsonl'))]
checks = []
for pid in ids:
    if pid not in PROPS:
        continue
    P = PROPS[pid]
    checks.append(dict(
        property_id=pid,
        quick_cmd='./check %s --tier quick' % pid,
        thorough_cmd='./check %s --tier thorough' % pid,
        evidence_file='/verif/evidence/%s.json' % pid,
        replay_cmd_template='./check %s --replay {path}' % pid,
        engine=P.get('engine_name', 'rapidcheck'),
        level_claimed=dict(category=P.get('level', 'exploration'), text=P['level_text'], design_ref=P.get('design_ref', 'DESIGN.md section 5 (%s)' % pid)),
        level_note=P['level_note'],
        technique=P['technique'],
    ))
na = [dict(property_id=i, reason=PROPS_NA[i]) for i in ids if i not in PROPS for PROPS_NA in [__import__('props_table').NOT_APPLICABLE]]
m = dict(
    version=1,
    setup_cmd='./check --build-all',
    hooks=dict(guard='IPR_VERIF',
               enable='checks compile /repo/src/*.cxx and /repo/include themselves with -DIPR_VERIF (no hook is currently needed; the define guards nothing in /repo)',
               baseline_off_cmd='cmake -G Ninja -S /repo -B /repo/_build && cmake --build /repo/_build && ctest --test-dir /repo/_build -j8 --timeout 900',
               source_commits=[], add_only=True),
    engines=[dict(name='rapidcheck', path='/verif/harness', serves_properties=[c['property_id'] for c in checks],
                  kind_free_text='rapidcheck generators + shrinking driven through rc::detail::checkTestable by harness/support.hpp (hunt loop with signature exclusion); '
                                 'exhaustive enumerators for the finite parts; quick and thorough tiers of every property'),
             dict(name='libfuzzer', path='/verif/harness', serves_properties=[pid for pid in ids if pid in PROPS and any(b['variant'] == 'fuzz' for b in PROPS[pid]['binaries'])],
                  kind_free_text='clang -fsanitize=fuzzer,address,undefined builds of the same property sources (VF_MAIN): coverage-guided mutation of the case bytes, the same run '
                                 'functions and semantic oracles inside the target; thorough tiers only, in addition to the rapidcheck shards')],
    checks=checks,
    notes='Driver: ./check <ID> [--tier quick|thorough] [--replay FILE]; VERIF_SEED is honoured. Known findings: /verif/known_findings.txt.',
    not_applicable=na,
)
json.dump(m, open(os.path.join(ROOT, 'MANIFEST.json'), 'w'), indent=1)
print('MANIFEST.json: %d checks, %d not_applicable' % (len(checks), len(na)))
