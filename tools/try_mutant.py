#!/usr/bin/env python3
"""Run /verif checks against a seeded change without touching /repo.

  tools/try_mutant.py <dir-with-patch.diff[,demo.cxx,meta.json]> --props C01,C05 [--tier quick] [--keep] [--skip-confirm]

Steps (each reported as one JSON line on stdout, summary at the end):
  1. scratch worktree of /repo HEAD under /tmp/mt/<name>, patch applied;
  2. the repository's own suite is built and run there (must still pass);
  3. demo.cxx (if present) is built against the patched library (must fail) and against /repo/_build/libipr.a (must pass);
  4. every listed check is run with IPR_REPO=<worktree>, IPR_BUILD=<scratch copy of /verif/build>, IPR_EVID=<scratch>;
  5. the worktree and its build output are removed.
Nothing here is used by a registered check; it is the sensitivity experiment of DESIGN.md section 3.9.
"""
import argparse, json, os, shutil, subprocess, sys, time

ROOT = os.path.dirname(os.path.dirname(os.path.abspath(__file__)))


def sh(cmd, **kw):
    return subprocess.run(cmd, shell=isinstance(cmd, str), stdout=subprocess.PIPE, stderr=subprocess.STDOUT, text=True, errors='replace', **kw)


def main():
    ap = argparse.ArgumentParser()
    ap.add_argument('dir')
    ap.add_argument('--props', required=True)
    ap.add_argument('--tier', default='quick')
    ap.add_argument('--seed', default='1')
    ap.add_argument('--keep', action='store_true')
    ap.add_argument('--skip-confirm', action='store_true')
    ap.add_argument('--name')
    a = ap.parse_args()
    d = os.path.abspath(a.dir)
    name = a.name or (os.path.basename(os.path.dirname(d)) + '_' + os.path.basename(d))
    base = '/tmp/mt/' + name
    wt = base + '/wt'
    res = dict(name=name, dir=d)
    shutil.rmtree(base, ignore_errors=True)
    sh(['git', '-C', '/repo', 'worktree', 'prune'])
    os.makedirs(base)
    r = sh(['git', '-C', '/repo', 'worktree', 'add', '--detach', wt, 'HEAD'])
    if r.returncode:
        print(r.stdout)
        return 2
    try:
        r = sh(['git', '-C', wt, 'apply', os.path.join(d, 'patch.diff')])
        res['patch_applies'] = r.returncode == 0
        if r.returncode:
            res['apply_output'] = r.stdout[-500:]
            print(json.dumps(res))
            return 2
        if not a.skip_confirm:
            t = time.time()
            r = sh('cmake -G Ninja -S %s -B %s/_build >/dev/null && cmake --build %s/_build 2>&1 | tail -5 && ctest --test-dir %s/_build -j8 --timeout 900 2>&1 | tail -4' % (wt, wt, wt, wt))
            res['suite_passes'] = '100% tests passed' in r.stdout
            res['suite_tail'] = r.stdout[-300:]
            res['suite_s'] = round(time.time() - t)
            demo = os.path.join(d, 'demo.cxx')
            if os.path.exists(demo):
                extra = ''
                try:
                    meta = json.load(open(os.path.join(d, 'meta.json')))
                    db = meta.get('demo_build', '')
                    extra = ' '.join(t for t in db.split() if t.startswith('-pthread') or t.startswith('-fsanitize') or t.startswith('-fno-sanitize') or t == '-g' or t.startswith('-l'))
                except Exception:
                    pass
                for tag, lib, inc in (('patched', wt + '/_build/libipr.a', wt + '/include'), ('clean', '/repo/_build/libipr.a', '/repo/include')):
                    exe = base + '/demo_' + tag
                    r = sh('g++ -std=c++20 -O1 %s -I%s %s %s -o %s' % (extra, inc, demo, lib, exe))
                    if r.returncode:
                        res['demo_%s' % tag] = 'build failed: ' + r.stdout[-400:]
                        continue
                    try:
                        r = sh([exe], timeout=600)
                        res['demo_%s' % tag] = dict(rc=r.returncode, tail=r.stdout[-200:])
                    except subprocess.TimeoutExpired:
                        res['demo_%s' % tag] = dict(rc='timeout')
        # checks
        vb = base + '/vbuild'
        os.makedirs(vb)
        for v in ('asan', 'plain', 'tsan', 'fuzz'):
            src = os.path.join(ROOT, 'build', v)
            if os.path.isdir(src):
                sh(['cp', '-a', src, vb + '/' + v])
        env = dict(os.environ, IPR_REPO=wt, IPR_BUILD=vb, IPR_EVID=base + '/evid', VERIF_SEED=a.seed)
        res['checks'] = {}
        for pid in a.props.split(','):
            t = time.time()
            r = sh([os.path.join(ROOT, 'check'), pid, '--tier', a.tier], env=env, cwd=ROOT)
            viol = [l for l in r.stdout.splitlines() if l.startswith('VIOLATION')]
            res['checks'][pid] = dict(rc=r.returncode, wall=round(time.time() - t), violations=[v[:400] for v in viol[:6]], n_violations=len(viol),
                                      tail=r.stdout.splitlines()[-1:] if r.stdout else [])
            # keep replay files of the violations next to the mutant for the record
            for v in viol[:3]:
                for tok in v.split():
                    if tok.startswith('replay=') and len(tok) > 7 and os.path.exists(tok[7:]):
                        os.makedirs(os.path.join(d, 'caught'), exist_ok=True)
                        shutil.copy(tok[7:], os.path.join(d, 'caught', pid + '_' + os.path.basename(tok[7:])))
        print(json.dumps(res, indent=1))
    finally:
        if not a.keep:
            sh(['git', '-C', '/repo', 'worktree', 'remove', '--force', wt])
            shutil.rmtree(base, ignore_errors=True)
            sh(['git', '-C', '/repo', 'worktree', 'prune'])
    return 0


if __name__ == '__main__':
    sys.exit(main())
