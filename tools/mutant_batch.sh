#!/bin/bash
# usage: [RESULTS=dir] [MUTROOT=dir] tools/mutant_batch.sh <PROP> [extra props comma separated]
# evaluates $MUTROOT/<PROP>/out/m*/ one after the other with tools/try_mutant.py
P=$1; EXTRA=${2:+,$2}
RESULTS=${RESULTS:-/tmp/mt_results}; MUTROOT=${MUTROOT:-/tmp/mut}
mkdir -p $RESULTS
for d in $MUTROOT/$P/out/m*/; do
  k=$(basename $d)
  [ -f $d/patch.diff ] || continue
  python3 /verif/tools/try_mutant.py $d --props $P$EXTRA --name ${P}_$k > $RESULTS/${P}_$k.json 2>&1
done
echo "batch $P done"
