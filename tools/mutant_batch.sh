#!/bin/bash
# usage: tools/mutant_batch.sh <PROP> [extra props comma separated]   -- evaluates /tmp/mut/<PROP>/out/m*/ one after the other
P=$1; EXTRA=${2:+,$2}
for d in /tmp/mut/$P/out/m*/; do
  k=$(basename $d)
  [ -f $d/patch.diff ] || continue
  python3 /verif/tools/try_mutant.py $d --props $P$EXTRA --name ${P}_$k > /tmp/mt_results/${P}_$k.json 2>&1
done
echo "batch $P done"
