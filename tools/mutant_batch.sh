#!/bin/bash
# usage: [RESULTS=dir] [MUTROOT=dir] [SUB=out|out2] [TAG=suffix] tools/mutant_batch.sh <PROP> [extra props comma separated]
# evaluates $MUTROOT/<PROP>/$SUB/m*/ one after the other with tools/try_mutant.py; results in $RESULTS/<PROP><TAG>_m<k>.json
P=$1; EXTRA=${2:+,$2}
RESULTS=${RESULTS:-/tmp/mt_results}; MUTROOT=${MUTROOT:-/tmp/mut}; SUB=${SUB:-out}; TAG=${TAG:-}; SEED=${SEED:-1}; SKIP=${SKIP:-}
mkdir -p $RESULTS
for d in $MUTROOT/$P/$SUB/m*/; do
  k=$(basename $d)
  [ -f $d/patch.diff ] || continue
  python3 /verif/tools/try_mutant.py $d --props $P$EXTRA --seed $SEED $SKIP --name ${P}${TAG}_${k}_s$SEED > $RESULTS/${P}${TAG}_$k.json 2>&1
done
echo "batch $P done"
