#!/usr/bin/env python3
"""Collect the confirmed seeded changes into /verif/seeded/<ID>_m<k>/ and write seeded/SUMMARY.md.

  tools/seed_collect.py <results-dir> <mutants-root>
results-dir holds the JSON written by tools/try_mutant.py (one file <ID>_m<k>.json per change), mutants-root the
sub-agents' deliveries (<root>/<ID>/out/m<k>/{patch.diff,demo.cxx,meta.json}).  A change is kept only if, in my own run,
the patched tree passed the repository's suite, the demonstration failed on the patched library and passed on the clean one.
"""
import glob, json, os, re, shutil, sys

ROOT = os.path.dirname(os.path.dirname(os.path.abspath(__file__)))
res_dir, mut_root = sys.argv[1], sys.argv[2]
for f in sorted(glob.glob(os.path.join(res_dir, 'C*_m*.json'))):
    name = os.path.basename(f)[:-5]
    txt = open(f).read()
    try:
        d = json.loads(txt[txt.index('{'):])
    except Exception:
        print('unparsable', f)
        continue
    m = re.match(r'^(C\d\d)(r\d)?_(m\d+)$', name)
    if not m:
        continue
    pid, tag, k = m.group(1), m.group(2) or '', m.group(3)
    src = os.path.join(mut_root, pid, 'out' + tag[1:], k)   # round 2 deliveries are under out2/
    dp, dc = d.get('demo_patched'), d.get('demo_clean')
    ok = d.get('suite_passes') and isinstance(dp, dict) and isinstance(dc, dict) and dp.get('rc') not in (0, None) and dc.get('rc') == 0
    if not ok:
        print('NOT KEPT', name, d.get('suite_passes'), dp, dc)
        continue
    dst = os.path.join(ROOT, 'seeded', name)
    os.makedirs(dst, exist_ok=True)
    for fn in ('patch.diff', 'demo.cxx'):
        shutil.copy(os.path.join(src, fn), os.path.join(dst, fn))
    try:
        agent = json.load(open(os.path.join(src, 'meta.json')))
    except Exception:
        agent = {}
    checks = {}
    for cid, c in d.get('checks', {}).items():
        sigs = sorted(set(v.split('signature=')[1].split()[0] for v in c['violations'] if 'signature=' in v))
        checks[cid] = dict(exit=c['rc'], wall_s=c['wall'], caught=c['rc'] == 1 and c['n_violations'] > 0, signatures=sigs)
    meta = dict(
        property=pid, summary=agent.get('summary', ''), files=agent.get('files', []), needs=agent.get('needs', ''),
        why_tests_pass=agent.get('why_tests_pass', ''), demo_build=re.sub(r'/tmp/mut/C\d\d', '<worktree>', agent.get('demo_build', '')),
        written_by='independent sub-agent given only the property text and a scratch worktree of /repo',
        what_i_ran=[
            'git worktree add --detach <scratch> HEAD && git apply patch.diff   (scratch worktree of /repo, removed afterwards)',
            'cmake -G Ninja -S <scratch> -B <scratch>/_build && cmake --build <scratch>/_build && ctest --test-dir <scratch>/_build -j8   -> %s' % ('100% tests passed' if d.get('suite_passes') else 'FAILED'),
            'demo.cxx against the patched library -> exit %s (%s)' % (dp.get('rc'), dp.get('tail', '').strip()[:160]),
            'demo.cxx against the clean library (/repo/_build/libipr.a) -> exit %s (%s)' % (dc.get('rc'), dc.get('tail', '').strip()[:60]),
            'IPR_REPO=<scratch> IPR_BUILD=<scratch copy of /verif/build> IPR_EVID=<scratch> ./check <ID> --tier quick   (tools/try_mutant.py)',
        ],
        checks=checks)
    json.dump(meta, open(os.path.join(dst, 'meta.json'), 'w'), indent=1)

rows = []
for d in sorted(os.listdir(os.path.join(ROOT, 'seeded'))):
    mp = os.path.join(ROOT, 'seeded', d, 'meta.json')
    if not os.path.exists(mp):
        continue
    m = json.load(open(mp))
    rows.append((d, m['property'], m.get('summary', '').replace('|', '/').replace('\n', ' ')[:150], m.get('needs', '').replace('|', '/').replace('\n', ' ')[:170], m.get('checks', {})))
lines = ['| change | what was changed | needs | caught by (quick tier) | signatures |', '|---|---|---|---|---|']
n_caught = 0
for name, pid, summ, needs, checks in rows:
    by = [c for c, v in checks.items() if v['caught']]
    n_caught += bool(by)
    sigs = []
    for c in by:
        sigs += checks[c]['signatures'][:3]
    lines.append('| %s | %s | %s | %s | %s |' % (name, summ, needs, ', '.join('%s (%ss)' % (c, checks[c]['wall_s']) for c in by) or '**missed**', ' '.join('`%s`' % s for s in sigs[:4])))
head = '%d seeded changes kept, %d caught by the quick tier of at least one of the checks run against them.\n\n' % (len(rows), n_caught)
open(os.path.join(ROOT, 'seeded', 'SUMMARY.md'), 'w').write('# Seeded changes and the checks that catch them\n\n' + head + '\n'.join(lines) + '\n')
print(head)
