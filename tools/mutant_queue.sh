#!/bin/bash
# usage: tools/mutant_queue.sh <max-parallel>   -- reads property ids from /tmp/mt_queue (one per line, appended to at any time)
MAXP=${1:-4}
touch /tmp/mt_queue /tmp/mt_queue.done
while true; do
  running=$(pgrep -f "mutant_batch.sh" | wc -l)
  next=$(grep -vxFf /tmp/mt_queue.done /tmp/mt_queue | head -1)
  if [ -n "$next" ] && [ "$running" -lt "$MAXP" ]; then
    echo "$next" >> /tmp/mt_queue.done
    P=${next%% *}; EXTRA=$(echo "$next" | awk '{print $2}')
    (/verif/tools/mutant_batch.sh $P $EXTRA > /tmp/mt_results/batch_$P.log 2>&1 &)
  fi
  sleep 10
done
