#!/bin/bash
# usage: [RESULTS=dir] tools/mutant_queue.sh <max-parallel> <queue-file>   -- lines "<PROP> [extra,props]"
MAXP=${1:-4}; Q=${2:-/tmp/mt_queue}
touch $Q $Q.done
while true; do
  running=$(pgrep -fc "tools/mutant_batch.sh")
  next=$(grep -vxFf $Q.done $Q | head -1)
  if [ -z "$next" ] && [ "$running" -eq 0 ]; then echo "queue drained"; exit 0; fi
  if [ -n "$next" ] && [ "$running" -lt "$MAXP" ]; then
    echo "$next" >> $Q.done
    set -- $next
    (/verif/tools/mutant_batch.sh $1 $2 > /dev/null 2>&1 &)
  fi
  sleep 5
done
