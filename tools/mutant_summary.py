#!/usr/bin/env python3
import json,glob,sys,os
for f in sorted(glob.glob('/tmp/mt_results/C*_m*.json')+glob.glob('/tmp/mt_C16_m*.json')):
    try:
        txt=open(f).read()
        d=json.loads(txt[txt.index('{'):])
    except Exception as e:
        print(os.path.basename(f),'(running or unparsable)'); continue
    dp=d.get('demo_patched'); dc=d.get('demo_clean')
    dp=dp.get('rc') if isinstance(dp,dict) else dp
    dc=dc.get('rc') if isinstance(dc,dict) else dc
    row=[os.path.basename(f)[:-5],'suite='+str(d.get('suite_passes')),'demo(p/c)=%s/%s'%(dp,dc)]
    for pid,c in d.get('checks',{}).items():
        sigs=[v.split('signature=')[1].split()[0] if 'signature=' in v else '?' for v in c['violations']]
        row.append('%s:rc=%s %ss %s'%(pid,c['rc'],c['wall'],','.join(sigs)[:140]))
    print('  '.join(row))
