// Light-weight types shared by the engine and the drivers (no rapidcheck here,
// so that the engine translation units compile quickly).
#pragma once

#include <cstdint>
#include <cstdio>
#include <map>
#include <string>
#include <vector>

namespace vf {

// ------------------------------------------------------------------- json --
inline std::string jstr(const std::string& s)
{
   std::string r = "\"";
   for (unsigned char c : s) {
      switch (c) {
      case '"': r += "\\\""; break;
      case '\\': r += "\\\\"; break;
      case '\n': r += "\\n"; break;
      case '\t': r += "\\t"; break;
      default:
         if (c < 0x20 || c >= 0x7f) {
            char b[8];
            std::snprintf(b, sizeof b, "\\u%04x", c);
            r += b;
         }
         else
            r += char(c);
      }
   }
   return r + "\"";
}

inline std::uint64_t fnv1a(const void* p, std::size_t n, std::uint64_t h = 1469598103934665603ull)
{
   auto b = static_cast<const unsigned char*>(p);
   for (std::size_t i = 0; i < n; ++i) {
      h ^= b[i];
      h *= 1099511628211ull;
   }
   return h;
}
inline std::uint64_t fnv1a(const std::string& s) { return fnv1a(s.data(), s.size()); }

// ---------------------------------------------------------------- outcome --
// What one executed case reports back.
struct Finding {
   std::string signature;   // property:clause:discriminator -- never an address or a counter
   std::string message;     // human-readable detail (may contain addresses)
};

struct Outcome {
   std::vector<Finding> findings;
   bool nontrivial = false;
   std::map<std::string, long> classes;   // counters merged into the evidence
   void fail(const std::string& sig_in, const std::string& msg)
   {
      std::string sig = sig_in;   // a signature is one word (the driver reads it as the second word of a SIG line)
      for (auto& ch : sig)
         if (ch == ' ' || ch == '\t' || ch == '\n') ch = '-';
      for (auto& f : findings)
         if (f.signature == sig) return;
      findings.push_back({sig, msg});
   }
   void count(const std::string& k, long n = 1) { classes[k] += n; }
};

}   // namespace vf
