// Interpreter core: World construction, spelling palette, recording and the
// unification model, script text format, generators, profiles, and the ops
// for names, atoms, type constructors and user-defined types.
#include "interp_util.hpp"

#include <memory>
#include <mutex>

namespace eng {
using namespace ipr;

// ----------------------------------------------------------------- palette --
static const char8_t* const reserved_words[] = {
   u8"...", u8"=0", u8"C", u8"C++", u8"auto", u8"bool", u8"char", u8"char16_t", u8"char32_t", u8"char8_t", u8"class", u8"const", u8"consteval",
   u8"constexpr", u8"constinit", u8"default", u8"delete", u8"double", u8"enum", u8"explicit", u8"export", u8"extern", u8"false", u8"float", u8"friend",
   u8"inline", u8"int", u8"long", u8"long double", u8"long long", u8"mutable", u8"namespace", u8"nullptr", u8"private", u8"protected", u8"public",
   u8"register", u8"restrict", u8"short", u8"signed char", u8"static", u8"this", u8"thread_local", u8"true", u8"typedef", u8"typename", u8"union",
   u8"unsigned char", u8"unsigned int", u8"unsigned long", u8"unsigned long long", u8"unsigned short", u8"virtual", u8"void", u8"volatile", u8"wchar_t"};
constexpr unsigned n_reserved = sizeof reserved_words / sizeof reserved_words[0];

static const char8_t* const operator_words[] = {u8"+",  u8"-",  u8"*",  u8"/",   u8"%",   u8"^",  u8"&",  u8"|",   u8"~",      u8"!",       u8"=",  u8"<",
                                                u8">",  u8"+=", u8"-=", u8"*=",  u8"/=",  u8"%=", u8"^=", u8"&=",  u8"|=",     u8"<<",      u8">>", u8"<<=",
                                                u8">>=", u8"==", u8"!=", u8"<=", u8">=",  u8"&&", u8"||", u8"++",  u8"--",     u8",",       u8"->*", u8"->",
                                                u8"()", u8"[]", u8"new", u8"new[]", u8"delete", u8"delete[]", u8"<=>", u8"co_await"};
constexpr unsigned n_operator = sizeof operator_words / sizeof operator_words[0];

static const char8_t* const linkage_words[] = {u8"C", u8"C++", u8"", u8"Java", u8"Fortran", u8"stdcall", u8"cdecl", u8"fastcall", u8"c", u8"C+", u8"C++ ", u8"vectorcall"};
constexpr unsigned n_linkage = sizeof linkage_words / sizeof linkage_words[0];

std::u8string World::spelling(unsigned a, unsigned b)
{
   std::u8string s;
   if (flags.safe_spellings) {
      // identifiers and literals that cannot spell "F<digits>:" and contain no control bytes
      static const char8_t* const safe[] = {u8"x", u8"y", u8"z", u8"n", u8"count", u8"buf", u8"p", u8"q", u8"idx", u8"val", u8"lhs", u8"rhs", u8"tmp", u8"acc", u8"it", u8"end"};
      s = safe[a % 16];
      if (b % 4) s += char8_t('0' + b % 10);
   }
   else
      switch (a % 8) {
      case 0: s = reserved_words[b % n_reserved]; break;
      case 1: {   // near miss of a reserved word: prefix, suffix, one-byte edit, extension
         std::u8string w = reserved_words[b % n_reserved];
         switch ((a >> 3) % 5) {
         case 0: w = w.substr(0, w.size() - 1); break;
         case 1: w = w.substr(1); break;
         case 2: w[w.size() / 2] = char8_t(w[w.size() / 2] ^ 0x20); break;
         case 3: w += u8"_"; break;
         default: w = u8" " + w; break;
         }
         s = w;
         break;
      }
      case 2: s = u8"v"; s += char8_t('0' + b % 10); break;
      case 3: s = operator_words[b % n_operator]; break;
      case 4:
         if (b != 255) s = std::u8string(1, char8_t((a >> 3) % 3 == 0 ? b % 16 : b));   // every single byte value incl. NUL (low control bytes favoured); 255 -> empty word
         break;
      case 5: {   // expansion of the operand bytes, all byte values
         const unsigned n = 1 + b % 24;
         for (unsigned i = 0; i < n; ++i) s += char8_t((a * 31 + b * 17 + i * 7 + (i * i)) & 0xff);
         break;
      }
      case 6: s = linkage_words[b % n_linkage]; break;
      default: s = u8"name_"; s += char8_t('a' + b % 26); s += char8_t('a' + (b / 26) % 26); break;
      }
   spellings.insert(std::string(reinterpret_cast<const char*>(s.data()), s.size()));
   return s;
}

// ------------------------------------------------------------------- world --
World::World(const Flags& f, Findings fnd, std::shared_ptr<impl::Lexicon> shared)
   : flags(f), findings(std::move(fnd)), lex(shared ? std::move(shared) : std::make_shared<impl::Lexicon>())
{
   table_inserts.assign(T_COUNT, 0);
   units.emplace_back(*lex);
   auto& u = units.front();
   add_region(u.global_region(), nullptr, &u.global_namespace(), true, "unit");
   add_scope(u.global_region());
   // process-wide constants
   auto& L = *lex;
   const Type* builtins[] = {&L.void_type(),     &L.bool_type(),      &L.char_type(),       &L.schar_type(),  &L.uchar_type(),      &L.wchar_t_type(), &L.char8_t_type(),
                             &L.char16_t_type(), &L.char32_t_type(),  &L.short_type(),      &L.ushort_type(), &L.int_type(),        &L.uint_type(),    &L.long_type(),
                             &L.ulong_type(),    &L.long_long_type(), &L.ulong_long_type(), &L.float_type(),  &L.double_type(),     &L.long_double_type(),
                             &L.ellipsis_type(), &L.typename_type(),  &L.class_type(),      &L.union_type(),  &L.enum_type(),       &L.namespace_type()};
   for (auto t : builtins) {
      types.push_back(t);
      plain_types.push_back(t);
      exprs.push_back(t);
      typed_exprs.push_back(t);
      constants.push_back(Entity{Aux::None, static_cast<const Node*>(t)});
   }
   const Symbol* syms[] = {&L.false_value(), &L.true_value(), &L.nullptr_value(), &L.default_value(), &L.delete_value()};
   for (auto s : syms) {
      exprs.push_back(s);
      typed_exprs.push_back(s);
      constants.push_back(Entity{Aux::None, static_cast<const Node*>(s)});
   }
   constants.push_back(Entity{Aux::None, static_cast<const Node*>(&String::empty_string())});
   constants.push_back(Entity{Aux::None, static_cast<const Node*>(&L.nullptr_value().type())});
   linkages.push_back(&L.cxx_linkage());
   linkages.push_back(&L.c_linkage());
   constants.push_back(Entity{Aux::Linkage, &L.cxx_linkage()});
   constants.push_back(Entity{Aux::Linkage, &L.c_linkage()});
   transfers.push_back(&impl::cxx_transfer());
   transfer_spelled[&impl::cxx_transfer()] = std::string("C++") + "\x1f";
   constants.push_back(Entity{Aux::Transfer, &impl::cxx_transfer()});
   convs.push_back(&impl::cxx_transfer().convention());
   constants.push_back(Entity{Aux::Convention, &impl::cxx_transfer().convention()});
   strs.push_back(&String::empty_string());
   add_type(u.global_namespace());
   namespaces.push_back(const_cast<impl::Namespace*>(static_cast<const impl::Namespace*>(&u.global_namespace())));
   // prelude: every pool gets at least one member through the ordinary ops
   static const struct { const char* op; Op args; } prelude[] = {
      {"STRING", {0, 7, 0}},      {"STRING", {0, 7, 1}},      {"IDENT_W", {0, 2, 1}},     {"IDENT_W", {0, 2, 2}},       {"IDENT_S", {0, 1}},
      {"LOGOGRAM", {0, 1}},       {"CONVENTION", {0, 6, 5}},  {"TRANSFER", {0, 0, 1, 0}}, {"LITERAL", {0, 0, 11, 1, 0}}, {"LITERAL", {0, 1, 11, 2, 1}},
      {"PRODUCT", {0, 0, 0}},     {"PRODUCT", {0, 0, 2, 11, 1}}, {"SUM", {0, 0, 1, 11}},  {"FUNCTION", {0, 0, 1, 11}},  {"FORALL", {0, 1, 21}},
      {"XLIST", {0}},             {"ENCLOSURE", {0, 1, 27}},  {"CONSTRUCTION", {0, 11, 0}}, {"BINARY", {0, 34, 5, 6}},
   };
   this_ident = util::view<Identifier>(L.get_this(L.void_type()).name());
   const std::size_t np = sizeof prelude / sizeof prelude[0];
   if (flags.reverse_prelude)   // the leaves of the prelude are requested in the opposite order first (this world's own pools do not matter)
      for (std::size_t i = np; i-- > 0;) {
         auto& p = prelude[i];
         const std::string n = p.op;
         if (n != "STRING" && n != "IDENT_W" && n != "IDENT_S" && n != "LOGOGRAM" && n != "LITERAL") continue;
         int k = op_index(p.op);
         if (k >= 0) op_table()[k].fn(*this, p.args);
      }
   for (std::size_t i = 0; i < np; ++i) {
      auto& p = prelude[i];
      int k = op_index(p.op);
      if (k >= 0) op_table()[k].fn(*this, p.args);
   }
   step = 0;
}

World::~World()
{
   // language order: units and modules die before the Lexicon (S10)
   modules.clear();
   units.clear();
}

Rec& World::record(const char* factory, Entity e, Category_code cat, bool generative)
{
   Rec r;
   r.op_index = step;
   r.factory = factory;
   r.ent = e;
   r.want_cat = cat;
   r.generative = generative;
   log.push_back(std::move(r));
   rec_of.emplace(e.ptr, int(log.size() - 1));
   factories_used.insert(factory);
   return log.back();
}

const char* table_prop(int t)
{
   if (t == T_STRING) return "C03";
   if (t <= T_LITERAL) return "C04";
   return "C01";
}

Rec& World::unified(const char* factory, int table, const std::string& key, Entity got, Category_code cat, std::function<Entity()> again)
{
   const std::string prop = table_prop(table);
   auto it = first_by_key.find(key);
   if (it != first_by_key.end()) {
      const long gap = table_inserts[table] - key_born[key];
      findings.count("repeat_requests");
      if (gap >= 1) findings.count("repeat_after_insertions");
      if (gap >= 16) findings.count("repeat_after_16_insertions");
      counters["max_gap"] = std::max(counters["max_gap"], gap);
      if (!(it->second == got))
         findings.fail(prop + ":repeat-differs:" + factory, "same request (" + printable(key) + ") returned " + P(got.ptr) + " after " + P(it->second.ptr) + " with " +
                                                             std::to_string(gap) + " insertions in between");
   }
   else {
      auto ko = key_of_entity.find(got.ptr);
      if (ko != key_of_entity.end() && ko->second != key)
         findings.fail(prop + ":distinct-args-same-node:" + factory, "requests " + printable(ko->second) + " and " + printable(key) + " share node " + P(got.ptr));
      else if (ko == key_of_entity.end() && rec_of.count(got.ptr))
         findings.fail(prop + ":new-request-old-node:" + factory, "request " + printable(key) + " returned " + P(got.ptr) + " first made by " + log[rec_of[got.ptr]].factory);
      first_by_key.emplace(key, got);
      key_born[key] = table_inserts[table];
      key_of_entity.emplace(got.ptr, key);
      ++table_inserts[table];
      findings.count("fresh_keys");
   }
   Rec& r = record(factory, got, cat, false);
   r.key = key;
   r.table = table;
   r.again = std::move(again);
   unified_recs.push_back(int(log.size() - 1));
   return r;
}

const Expr& World::expr_before(const Expr& target, unsigned k) const
{
   auto it = expr_index.find(&target);
   const std::size_t n = it == expr_index.end() ? exprs.size() : it->second;
   return *exprs[n == 0 ? 0 : k % n];
}

const Stmt* World::stmt_before(const Expr& target, unsigned k) const
{
   auto it = expr_index.find(&target);
   const std::size_t n = it == expr_index.end() ? exprs.size() : it->second;
   // statements are expressions too: take the candidates born before the target
   std::vector<const Stmt*> ok;
   for (auto& h : stmts) {
      auto p = expr_index.find(static_cast<const Expr*>(h.stmt));
      if (p != expr_index.end() && p->second < n) ok.push_back(h.stmt);
   }
   return ok.empty() ? nullptr : ok[k % ok.size()];
}

void World::add_expr(const Expr& e, bool typed)
{
   expr_index.emplace(&e, exprs.size());
   exprs.push_back(&e);
   if (typed) typed_exprs.push_back(&e);
}

void World::add_type(const Type& t)
{
   types.push_back(&t);
   if (t.category != Category_code::Qualified) plain_types.push_back(&t);
   else qualified_types.push_back(&t);
   expr_index.emplace(static_cast<const Expr*>(&t), exprs.size());
   exprs.push_back(&t);
   typed_exprs.push_back(&t);
}

void World::add_name(const Name& n) { names.push_back(&n); }

ScopeModel& World::add_scope(impl::Region* r)
{
   ScopeModel m;
   m.scope = &r->scope;
   m.region = r;
   m.iregion = r;
   scopes.push_back(m);
   return scopes.back();
}

int World::depth_of(const Region* r) const
{
   for (auto& m : region_models)
      if (m.region == r) return m.depth;
   return 0;
}

void World::add_foreign_region(const Region* r, const Region* parent, const Node* owner, bool specified, const char* opener)
{
   RegionModel m;
   m.region = r;
   m.parent = parent;
   m.owner = owner;
   m.owner_specified = specified;
   m.depth = parent ? depth_of(parent) + 1 : 0;
   m.opener = opener;
   region_models.push_back(m);
   all_regions.push_back(r);
   counters["max_region_depth"] = std::max<long>(counters["max_region_depth"], m.depth);
   findings.count(std::string("region_opener_") + opener);
}

void World::add_region(impl::Region* r, const Region* parent, const Node* owner, bool specified, const char* opener)
{
   add_foreign_region(r, parent, owner, specified, opener);
   regions.push_back(r);
}

void World::exec(const Op& op, const Profile& p)
{
   const auto& tab = op_table();
   const int k = p.decode(op.code);
   ++step;
   acyclic_known.clear();
   findings.count(std::string("op_") + tab[k].name);
   if (flags.heap_shuffle) {
      // unrelated heap traffic: blocks of node-like sizes are allocated and released in a rotated order, so that the
      // allocations of this op reuse them out of address order (and differently from a run without the shuffle)
      constexpr int n = 12;
      void* blk[n];
      const unsigned seed = unsigned(flags.heap_shuffle) * 2654435761u + unsigned(step) * 40503u;
      for (int i = 0; i < n; ++i) blk[i] = ::operator new(24 + 16 * ((seed >> (i % 16)) % 28));
      for (int i = 0; i < n; ++i) ::operator delete(blk[(i * 5 + seed) % n]);
   }
   if (std::strcmp(tab[k].name, "AGAIN") == 0) {
      // the previous op once more, byte for byte: a generative factory asked twice with the same arguments must hand out
      // two nodes, a unifying one the same node
      if (last_kind >= 0) {
         findings.count(std::string("again_") + tab[last_kind].name);
         tab[last_kind].fn(*this, last_op);
      }
      return;
   }
   last_op = op;
   last_kind = k;
   tab[k].fn(*this, op);
}

void World::run(const Case& c)
{
   const Profile& p = profile(c.profile);
   for (auto& op : c.ops) exec(op, p);
}

// --------------------------------------------------------------- op table --
const std::vector<OpInfo>& op_table()
{
   static const std::vector<OpInfo> table = [] {
      std::vector<OpInfo> t;
      register_core_ops(t);
      register_expr_ops(t);
      register_decl_ops(t);
      return t;
   }();
   return table;
}

int op_index(const char* name)
{
   const auto& t = op_table();
   for (std::size_t i = 0; i < t.size(); ++i)
      if (std::strcmp(t[i].name, name) == 0) return int(i);
   return -1;
}

int Profile::decode(std::uint16_t code) const
{
   const int x = int(code) % total;
   return int(std::upper_bound(cumulative.begin(), cumulative.end(), x) - cumulative.begin());
}

// ------------------------------------------------------------ text format --
std::string to_text(const Case& c)
{
   std::ostringstream os;
   os << "script " << c.profile;
   for (auto b : c.aux) os << " " << int(b);
   os << "\n";
   const Profile& p = profile(c.profile);
   const auto& tab = op_table();
   for (auto& op : c.ops)
      os << tab[p.decode(op.code)].name << " " << int(op.a) << " " << int(op.b) << " " << int(op.c) << " " << int(op.d) << " " << int(op.e) << " " << int(op.f) << "\n";
   return os.str();
}

bool from_text(const std::string& s, Case& c)
{
   std::istringstream is(s);
   std::string line, tag;
   if (!std::getline(is, line)) return false;
   {
      std::istringstream hs(line);
      if (!(hs >> tag >> c.profile) || tag != "script") return false;
      c.aux.clear();
      for (int b; hs >> b;) c.aux.push_back(std::uint8_t(b));
   }
   const Profile& p = profile(c.profile);
   c.ops.clear();
   while (std::getline(is, line)) {
      std::istringstream ls(line);
      std::string name;
      int v[6] = {0, 0, 0, 0, 0, 0};
      if (!(ls >> name)) continue;
      for (int i = 0; i < 6; ++i) ls >> v[i];
      const int k = op_index(name.c_str());
      if (k < 0) return false;
      // the smallest code that decodes to op k under this profile (zero-weight ops cannot be replayed under it)
      const int lo = k == 0 ? 0 : p.cumulative[k - 1];
      if (lo >= p.cumulative[k]) continue;
      Op op;
      op.code = std::uint16_t(lo);
      op.a = std::uint8_t(v[0]); op.b = std::uint8_t(v[1]); op.c = std::uint8_t(v[2]);
      op.d = std::uint8_t(v[3]); op.e = std::uint8_t(v[4]); op.f = std::uint8_t(v[5]);
      c.ops.push_back(op);
   }
   return true;
}

std::ostream& operator<<(std::ostream& os, const Case& c)
{
   const std::string t = to_text(c);
   return os << (t.size() > 1500 ? t.substr(0, 1500) + "..." : t);
}

std::string render_trace(const World& w, std::size_t max_lines)
{
   std::ostringstream os;
   for (std::size_t i = 0; i < w.trace.size() && i < max_lines; ++i) os << w.trace[i] << "; ";
   if (w.trace.size() > max_lines) os << "... (" << w.trace.size() << " steps)";
   return os.str();
}

// ================================================================== OPS =====
namespace {

// A word handed to the library the way a scanner would: a view into the middle of a larger buffer, with other
// characters (not a NUL) right after it.  The buffer is exactly sized on the heap, so reading past it trips ASan, and a
// callee that forgets the length of the view and re-measures it sees a longer word.
struct Sliced {
   std::unique_ptr<char8_t[]> buf;
   std::size_t len;
   explicit Sliced(const std::u8string& w) : buf(new char8_t[w.size() + 5]), len(w.size())
   {
      buf[0] = u8'=';
      buf[1] = u8'"';
      std::copy(w.begin(), w.end(), buf.get() + 2);
      buf[2 + len] = u8'"';
      buf[3 + len] = u8';';
      buf[4 + len] = u8'x';
   }
   operator ipr::util::word_view() const { return ipr::util::word_view(buf.get() + 2, len); }
};

// ---------------------------------------------------------------- names ----
void op_STRING(World& w, const Op& op)
{
   auto sp = w.spelling(op.a, op.b);
   auto& s = w.L().get_string(Sliced(sp));
   auto again = [&w, sp] { return Entity{Aux::None, static_cast<const Node*>(&w.L().get_string(sp))}; };
   w.unified("get_string", T_STRING, "string|" + bytes(sp), ent(s), Category_code::String, again).exp("characters", Val::bytes(bytes(sp)));
   w.strs.push_back(&s);
   w.note("string " + printable(bytes(sp)));
}

void ident_common(World& w, const Identifier& id, const String& s, std::function<Entity()> again, const char* factory)
{
   w.unified(factory, T_IDENT, "identifier|" + chars(s), ent(id), Category_code::Identifier, std::move(again)).exp("string", N(s)).exp("operand", N(s));
   w.idents.push_back(&id);
   w.add_name(id);
   w.note("identifier " + printable(chars(s)));
}

void op_IDENT_W(World& w, const Op& op)
{
   auto sp = w.spelling(op.a, op.b);
   auto& id = w.L().get_identifier(Sliced(sp));
   ident_common(w, id, w.L().get_string(sp), [&w, sp] { return ent(w.L().get_identifier(sp)); }, "get_identifier(word)");
}

void op_IDENT_S(World& w, const Op& op)
{
   auto& s = *World::pick(w.strs, op.a);
   auto& id = w.L().get_identifier(s);
   ident_common(w, id, s, [&w, &s] { return ent(w.L().get_identifier(s)); }, "get_identifier(String)");
}

void operator_common(World& w, const Operator& o, const String& s, std::function<Entity()> again, const char* factory)
{
   w.unified(factory, T_OPERATOR, "operator|" + chars(s), ent(o), Category_code::Operator, std::move(again)).exp("opname", N(s)).exp("operand", N(s));
   w.add_name(o);
   w.note("operator " + printable(chars(s)));
}

void op_OPERATOR_W(World& w, const Op& op)
{
   auto sp = w.spelling(op.a % 2 ? 3 : op.a, op.b);
   auto& o = w.L().get_operator(Sliced(sp));
   operator_common(w, o, w.L().get_string(sp), [&w, sp] { return ent(w.L().get_operator(sp)); }, "get_operator(word)");
}

void op_OPERATOR_S(World& w, const Op& op)
{
   auto& s = *World::pick(w.strs, op.a);
   auto& o = w.L().get_operator(s);
   operator_common(w, o, s, [&w, &s] { return ent(w.L().get_operator(s)); }, "get_operator(String)");
}

void op_SUFFIX(World& w, const Op& op)
{
   auto& id = *World::pick(w.idents, op.a);
   auto& n = w.L().get_suffix(id);
   w.unified("get_suffix", T_SUFFIX, "suffix|" + P(&id), ent(n), Category_code::Suffix, [&w, &id] { return ent(w.L().get_suffix(id)); }).exp("name", N(id)).exp("operand", N(id));
   w.add_name(n);
   w.note("suffix");
}

void op_CONVERSION(World& w, const Op& op)
{
   auto& t = *World::pick(w.types, op.a);
   auto& n = w.L().get_conversion(t);
   w.unified("get_conversion", T_CONVERSION, "conversion|" + P(&t), ent(n), Category_code::Conversion, [&w, &t] { return ent(w.L().get_conversion(t)); })
      .exp("target", N(t))
      .exp("operand", N(t));
   w.add_name(n);
   w.note("conversion");
}

void op_CTOR_NAME(World& w, const Op& op)
{
   auto& t = *World::pick(w.types, op.a);
   auto& n = w.L().get_ctor_name(t);
   w.unified("get_ctor_name", T_CTOR, "ctor|" + P(&t), ent(n), Category_code::Ctor_name, [&w, &t] { return ent(w.L().get_ctor_name(t)); })
      .exp("object_type", N(t))
      .exp("operand", N(t));
   w.add_name(n);
   w.note("ctor_name");
}

void op_DTOR_NAME(World& w, const Op& op)
{
   auto& t = *World::pick(w.types, op.a);
   auto& n = w.L().get_dtor_name(t);
   w.unified("get_dtor_name", T_DTOR, "dtor|" + P(&t), ent(n), Category_code::Dtor_name, [&w, &t] { return ent(w.L().get_dtor_name(t)); })
      .exp("object_type", N(t))
      .exp("operand", N(t));
   w.add_name(n);
   w.note("dtor_name");
}

void op_GUIDE_NAME(World& w, const Op& op)
{
   if (w.templates.empty()) return;
   const Template& t = *World::pick(w.templates, op.a);
   auto& n = w.L().get_guide_name(t);
   w.unified("get_guide_name", T_GUIDE, "guide|" + P(&t), ent(n), Category_code::Guide_name, [&w, &t] { return ent(w.L().get_guide_name(t)); })
      .exp("mapping_decl", N(t))
      .exp("operand", N(t));
   w.add_name(n);
   w.note("guide_name");
}

void op_LOGOGRAM(World& w, const Op& op)
{
   auto& s = *World::pick(w.strs, op.a);
   auto& l = w.L().get_logogram(s);
   w.unified("get_logogram", T_LOGOGRAM, "logogram|" + chars(s), Entity{Aux::Logogram, &l}, Category_code::Unknown,
             [&w, &s] { return Entity{Aux::Logogram, &w.L().get_logogram(s)}; })
      .exp("what", N(s))
      .exp("operand", N(s))
      .exp("spelling", Val::bytes(chars(s)));
   w.logos.push_back(&l);
   w.note("logogram " + printable(chars(s)));
}

void op_TEMPLATE_ID(World& w, const Op& op)
{
   auto& e = *World::pick(w.exprs, op.a);
   auto xl = World::pick(w.xlists, op.b);
   const bool viaget = op.c % 2 == 0;
   const Template_id& n = viaget ? w.L().get_template_id(e, *xl) : *w.L().make_template_id(e, *xl);
   const Expr_list* xlp = xl;
   w.unified(viaget ? "get_template_id" : "make_template_id", T_TEMPLATE_ID, "template_id|" + P(&e) + "|" + P(static_cast<const Node*>(xlp)), ent(n),
             Category_code::Template_id, [&w, &e, xlp] { return ent(w.L().get_template_id(e, *xlp)); })
      .exp("template_name", N(e))
      .exp("args", N(*xlp))
      .exp("first", N(e))
      .exp("second", N(*xlp));
   w.add_name(n);
   w.note("template_id");
}

// ---------------------------------------------------------------- atoms ----
void linkage_common(World& w, const Linkage& l, const std::string& sp, std::function<Entity()> again, const char* factory)
{
   w.unified(factory, T_LINKAGE, "linkage|" + sp, Entity{Aux::Linkage, &l}, Category_code::Unknown, std::move(again)).exp("spelling", Val::bytes(sp));
   w.linkages.push_back(&l);
   w.note("linkage " + printable(sp));
}

void op_LINKAGE_W(World& w, const Op& op)
{
   auto sp = w.spelling(op.a % 3 ? 6 : op.a, op.b);
   auto& l = w.L().get_linkage(Sliced(sp));
   linkage_common(w, l, bytes(sp), [&w, sp] { return Entity{Aux::Linkage, &w.L().get_linkage(sp)}; }, "get_linkage(word)");
}

void op_LINKAGE_S(World& w, const Op& op)
{
   auto& s = *World::pick(w.strs, op.a);
   auto& l = w.L().get_linkage(s);
   linkage_common(w, l, chars(s), [&w, &s] { return Entity{Aux::Linkage, &w.L().get_linkage(s)}; }, "get_linkage(String)");
}

void op_CONVENTION(World& w, const Op& op)
{
   auto sp = w.spelling(op.a % 3 ? 6 : op.a, op.b);
   auto& c = w.L().get_calling_convention(Sliced(sp));
   w.unified("get_calling_convention", T_CONVENTION, "convention|" + bytes(sp), Entity{Aux::Convention, &c}, Category_code::Unknown,
             [&w, sp] { return Entity{Aux::Convention, &w.L().get_calling_convention(sp)}; })
      .exp("spelling", Val::bytes(bytes(sp)));
   w.convs.push_back(&c);
   w.note("convention " + printable(bytes(sp)));
}

void op_TRANSFER(World& w, const Op& op)
{
   auto& l = *World::pick(w.linkages, op.b);
   auto& c = *World::pick(w.convs, op.c);
   const Transfer* t = nullptr;
   const char* factory = "";
   std::string lang, cc, family;
   std::function<Entity()> again;
   // Keys are per constructor: from-linkage(l), from-convention(c), general(l, c).  The general constructor asked with the
   // C++ linkage or the natural convention is documented to be the corresponding specialised request.
   switch (op.a % 3) {
   case 0:
      t = &w.L().get_transfer_from_linkage(l);
      factory = "get_transfer_from_linkage";
      lang = spelled(l);
      cc = "";
      family = "L";
      again = [&w, &l] { return Entity{Aux::Transfer, &w.L().get_transfer_from_linkage(l)}; };
      break;
   case 1:
      t = &w.L().get_transfer_from_convention(c);
      factory = "get_transfer_from_convention";
      lang = "C++";
      cc = spelled(c);
      family = "C";
      again = [&w, &c] { return Entity{Aux::Transfer, &w.L().get_transfer_from_convention(c)}; };
      break;
   default:
      t = &w.L().get_transfer(l, c);
      factory = "get_transfer";
      lang = spelled(l);
      cc = spelled(c);
      family = lang == "C++" ? "C" : (cc.empty() ? "L" : "G");
      again = [&w, &l, &c] { return Entity{Aux::Transfer, &w.L().get_transfer(l, c)}; };
      break;
   }
   w.unified(factory, T_TRANSFER, "transfer" + family + "|" + lang + "\x1f" + cc, Entity{Aux::Transfer, t}, Category_code::Unknown, again)
      .exp("lang", Val::bytes(lang))
      .exp("cc", Val::bytes(cc));
   w.transfers.push_back(t);
   w.transfer_spelled.emplace(t, lang + "\x1f" + cc);
   w.note("transfer " + printable(lang) + "/" + printable(cc));
}

void op_SYMBOL(World& w, const Op& op)
{
   auto& n = *World::pick(w.names, op.a);
   auto& t = *World::pick(w.types, op.b);
   auto& s = w.L().get_symbol(n, t);
   w.unified("get_symbol", T_SYMBOL, "symbol|" + P(&n) + "|" + P(&t), ent(s), Category_code::Symbol, [&w, &n, &t] { return ent(w.L().get_symbol(n, t)); })
      .exp("name", N(n))
      .exp("operand", N(n))
      .exp("type", N(t));
   w.add_expr(s, true);
   w.note("symbol");
}

void op_LABEL(World& w, const Op& op)
{
   auto& id = *World::pick(w.idents, op.a);
   auto& s = w.L().get_label(id);
   if (physically_same(id, w.L().default_value().name())) {
      // the label `default` is the constant itself (C13 checks the route; nothing generative to record)
      if (!physically_same(s, w.L().default_value())) w.findings.fail("C13:route:get_label(default)", "get_label(default identifier) is not default_value()");
      return;
   }
   auto& v = w.L().void_type();
   w.unified("get_label", T_SYMBOL, "symbol|" + P(static_cast<const Name*>(&id)) + "|" + P(&v), ent(s), Category_code::Symbol, [&w, &id] { return ent(w.L().get_label(id)); })
      .exp("name", N(id))
      .exp("type", N(v));
   w.add_expr(s, true);
   w.note("label");
}

void op_THIS(World& w, const Op& op)
{
   auto& t = *World::pick(w.types, op.a);
   auto& s = w.L().get_this(t);
   Rec& r = w.unified("get_this", T_SYMBOL, "symbol|" + P(static_cast<const Name*>(w.this_ident)) + "|" + P(&t), ent(s), Category_code::Symbol,
                      [&w, &t] { return ent(w.L().get_this(t)); });
   r.exp("type", N(t));
   if (w.this_ident) r.exp("name", N(*w.this_ident));
   w.add_expr(s, true);
   w.note("this");
}

void op_LITERAL(World& w, const Op& op)
{
   auto& t = *World::pick(w.types, op.b);
   const String* s = nullptr;
   const Literal* lit = nullptr;
   const char* factory = "";
   switch (op.a % 4) {
   case 0: s = World::pick(w.strs, op.c); lit = &w.L().get_literal(t, *s); factory = "get_literal(String)"; break;
   case 1: {
      auto sp = w.spelling(op.c, op.d);
      s = &w.L().get_string(sp);
      lit = &w.L().get_literal(t, Sliced(sp));
      factory = "get_literal(word)";
      break;
   }
   case 2: s = World::pick(w.strs, op.c); lit = w.L().make_literal(t, *s); factory = "make_literal(String)"; break;
   default: {
      auto sp = w.spelling(op.c, op.d);
      s = &w.L().get_string(sp);
      lit = w.L().make_literal(t, Sliced(sp));
      factory = "make_literal(word)";
      break;
   }
   }
   const String& str = *s;
   w.unified(factory, T_LITERAL, "literal|" + P(&t) + "|" + P(static_cast<const Node*>(&str)), ent(*lit), Category_code::Literal,
             [&w, &t, &str] { return ent(w.L().get_literal(t, str)); })
      .exp("first", N(t))
      .exp("second", N(str))
      .exp("string", N(str))
      .exp("type", N(t))
      .exp("implementation", Val::absent());
   w.literals.push_back(lit);
   w.add_expr(*lit, true);
   w.note("literal " + printable(chars(str)));
}

void op_PHANTOM(World& w, const Op& op)
{
   if (op.a % 2) {
      auto& t = *World::pick(w.types, op.b);
      auto p = w.L().make_phantom(t);
      w.record_node("make_phantom(Type)", *p, Category_code::Phantom).exp("type", N(t));
      w.add_expr(*p, true);
   }
   else {
      auto p = w.L().make_phantom();
      w.record_node("make_phantom()", *p, Category_code::Phantom).exp("type", Val::throws());
      w.add_expr(*p, false);
   }
   w.note("phantom");
}

void op_ECLIPSIS(World& w, const Op& op)
{
   auto& t = *World::pick(w.types, op.a);
   auto p = w.L().make_eclipsis(t);
   w.record_node("make_eclipsis", *p, Category_code::Eclipsis).exp("type", N(t));
   w.add_expr(*p, true);
   w.note("eclipsis");
}

Source_location make_loc(unsigned file, unsigned line, unsigned col)
{
   Source_location l;
   l.file = File_index{file};
   l.line = Line_number{line};
   l.column = Column_number{col};
   return l;
}

void op_TOKEN(World& w, const Op& op)
{
   // Lexicon::make_token is declared but has no definition; tokens are built through the public constructor.
   auto& s = *World::pick(w.strs, op.a);
   auto loc = make_loc(op.b, op.c * 3u + 1u, op.d);
   w.token_store.emplace_back(s, loc, TokenValue{std::uint16_t(op.e * 257u)}, TokenCategory{op.f});
   const Token& t = w.token_store.back();
   w.record("impl::Token", Entity{Aux::Token, &t}, Category_code::Unknown, true)
      .exp("spelling", N(s))
      .exp("locus", Val::list({U(op.b), U(op.c * 3u + 1u), U(op.d)}))
      .exp("value", U(std::uint16_t(op.e * 257u)))
      .exp("category", U(op.f))
      .exp("lexeme", Val::obj(static_cast<const Lexeme*>(&w.token_store.back())));
   w.tokens.push_back(&t);
   w.note("token");
}

void op_ANNOTATION(World& w, const Op& op)
{
   // expr_factory::make_annotation is declared but has no definition.
   auto& s = *World::pick(w.strs, op.a);
   auto& l = *World::pick(w.literals, op.b);
   w.annotation_store.emplace_back(s, l);
   auto& a = w.annotation_store.back();
   w.record_node("impl::Annotation", a, Category_code::Annotation).exp("name", N(s)).exp("value", N(l)).exp("first", N(s)).exp("second", N(l));
   w.note("annotation");
}

void op_COMMENT(World& w, const Op& op)
{
   auto& s = *World::pick(w.strs, op.a);
   w.comment_store.emplace_back(s);
   auto& c = w.comment_store.back();
   w.record_node("impl::Comment", c, Category_code::Comment).exp("text", N(s)).exp("operand", N(s));
   w.note("comment");
}

// ---------------------------------------------------------------- types ----
void op_POINTER(World& w, const Op& op)
{
   auto& t = *World::pick(w.types, op.a);
   auto& p = w.L().get_pointer(t);
   w.unified("get_pointer", T_POINTER, "pointer|" + P(&t), ent(p), Category_code::Pointer, [&w, &t] { return ent(w.L().get_pointer(t)); })
      .exp("points_to", N(t))
      .exp("operand", N(t))
      .exp("type", N(w.L().typename_type()))
      .exp("transfer.lang", Val::bytes("C++"))
      .exp("transfer.cc", Val::bytes(""));
   w.add_type(p);
   w.note("pointer");
}

void op_REFERENCE(World& w, const Op& op)
{
   auto& t = *World::pick(w.types, op.a);
   auto& p = w.L().get_reference(t);
   w.unified("get_reference", T_REFERENCE, "reference|" + P(&t), ent(p), Category_code::Reference, [&w, &t] { return ent(w.L().get_reference(t)); })
      .exp("refers_to", N(t))
      .exp("operand", N(t))
      .exp("type", N(w.L().typename_type()));
   w.add_type(p);
   w.note("reference");
}

void op_RVALUE_REF(World& w, const Op& op)
{
   auto& t = *World::pick(w.types, op.a);
   auto& p = w.L().get_rvalue_reference(t);
   w.unified("get_rvalue_reference", T_RVALUE_REF, "rvalue_reference|" + P(&t), ent(p), Category_code::Rvalue_reference,
             [&w, &t] { return ent(w.L().get_rvalue_reference(t)); })
      .exp("refers_to", N(t))
      .exp("operand", N(t))
      .exp("type", N(w.L().typename_type()));
   w.add_type(p);
   w.note("rvalue_reference");
}

void op_ARRAY(World& w, const Op& op)
{
   auto& t = *World::pick(w.types, op.a);
   auto& b = *World::pick(w.exprs, op.b);
   auto& p = w.L().get_array(t, b);
   w.unified("get_array", T_ARRAY, "array|" + P(&t) + "|" + P(&b), ent(p), Category_code::Array, [&w, &t, &b] { return ent(w.L().get_array(t, b)); })
      .exp("element_type", N(t))
      .exp("bound", N(b))
      .exp("first", N(t))
      .exp("second", N(b))
      .exp("type", N(w.L().typename_type()));
   w.add_type(p);
   w.note("array");
}

void op_QUALIFIED(World& w, const Op& op)
{
   const unsigned bits = op.a % 8;
   const bool nest = w.counters["nest_qualified"] != 0 && (op.c % 4) == 0;
   // nested qualification: half of the time the operand is certainly a qualified type (a recent one, so that a script of a
   // few ops can say "qualify, then qualify the result"), otherwise any type
   const bool certainly = nest && (op.c % 8) == 0 && !w.qualified_types.empty();
   auto& t = certainly ? *w.qualified_types[w.qualified_types.size() - 1 - (op.b % std::min<std::size_t>(4, w.qualified_types.size()))]
                       : (nest ? *World::pick(w.types, op.b) : *World::pick(w.plain_types, op.b));
   const Qualifiers q{bits};
   if (bits == 0) {
      // an empty qualifier set must be refused
      bool refused = false;
      try {
         (void)&w.L().get_qualified(q, t);
      }
      catch (...) {
         refused = true;
      }
      if (!refused) w.findings.fail("C11:empty-not-refused", "get_qualified({}, T) returned a node");
      w.findings.count("empty_qualifier_requests");
      return;
   }
   // normal form: union of qualifier sets over the innermost unqualified type
   std::uintptr_t all = bits;
   const Type* inner = &t;
   while (auto qt = util::view<Qualified>(*inner)) {
      all |= util::rep(qt->qualifiers());
      const Type* next = &qt->main_variant();
      if (next == inner) break;
      inner = next;
   }
   auto& p = w.L().get_qualified(q, t);
   const std::string key = "qualified|" + std::to_string(all) + "|" + P(inner);
   const bool was_nested = inner != &t;
   if (was_nested) {
      // attribute normal-form disagreements to C11, not to C01
      auto it = w.first_by_key.find(key);
      const bool main_ok = physically_same(p.main_variant(), *inner) && util::rep(p.qualifiers()) == all;
      if (!main_ok || (it != w.first_by_key.end() && it->second.ptr != static_cast<const Node*>(&p)))
         w.findings.fail("C11:normal-form:get_qualified", "qualifying an already qualified type did not give Qualified(union, innermost)");
      w.findings.count("nested_qualification_requests");
      // C01, on the normal-form key: the same (union, innermost) is one node, two different ones are two nodes
      if (it != w.first_by_key.end() && it->second.ptr != static_cast<const Node*>(&p))
         w.findings.fail("C01:repeat-differs:get_qualified(qualified operand)", "the request for " + printable(key) + " was answered by another node than before");
      {
         auto ko = w.key_of_entity.find(static_cast<const Node*>(&p));
         if (ko != w.key_of_entity.end() && ko->second != key)
            w.findings.fail("C01:distinct-args-same-node:get_qualified(qualified operand)", "requests " + printable(ko->second) + " and " + printable(key) + " share a node");
      }
      if (!main_ok || it == w.first_by_key.end() || it->second.ptr != static_cast<const Node*>(&p)) {
         // keep the model consistent: only record results that are in normal form and agree with it
         if (!main_ok) {
            // nothing is recorded for a result outside the documented normal form; say what the read-back shows
            if (util::rep(p.qualifiers()) != all)
               w.findings.fail("C02:field-mismatch:get_qualified.qualifiers", "qualifiers() is " + std::to_string(util::rep(p.qualifiers())) + ", the request over an already qualified operand amounts to " + std::to_string(all));
            if (!physically_same(p.main_variant(), *inner)) w.findings.fail("C02:field-mismatch:get_qualified.main_variant", "main_variant() is not the innermost unqualified type");
            return;
         }
      }
      if (it != w.first_by_key.end() && it->second.ptr != static_cast<const Node*>(&p)) return;
   }
   const Qualifiers qall{all};
   w.unified("get_qualified", T_QUALIFIED, key, ent(p), Category_code::Qualified, [&w, qall, inner] { return ent(w.L().get_qualified(qall, *inner)); })
      .exp("qualifiers", U(all))
      .exp("main_variant", N(*inner))
      .exp("first", U(all))
      .exp("second", N(*inner))
      .exp("type", N(w.L().typename_type()));
   w.add_type(p);
   w.note("qualified " + std::to_string(bits));
}

void op_FUNCTION(World& w, const Op& op)
{
   auto& s = *World::pick(w.products, op.b);
   auto& t = *World::pick(w.types, op.c);
   auto& e = *World::pick(w.exprs, op.d);
   auto& x = *World::pick(w.transfers, op.e);
   const Function* f = nullptr;
   const Expr* thr = &w.L().false_value();
   const Transfer* xf = nullptr;
   const char* factory = "";
   switch (op.a % 4) {
   case 0: f = &w.L().get_function(s, t); factory = "get_function(s,t)"; break;
   case 1: f = &w.L().get_function(s, t, x); xf = &x; factory = "get_function(s,t,transfer)"; break;
   case 2: f = &w.L().get_function(s, t, e); thr = &e; factory = "get_function(s,t,throws)"; break;
   default: f = &w.L().get_function(s, t, e, x); thr = &e; xf = &x; factory = "get_function(s,t,throws,transfer)"; break;
   }
   const std::string xk = xf && !is_natural(*xf) ? xkey(*xf) : std::string();
   const Expr& th = *thr;
   std::function<Entity()> again;
   if (xk.empty()) again = [&w, &s, &t, &th] { return ent(w.L().get_function(s, t, th)); };
   else again = [&w, &s, &t, &th, xf] { return ent(w.L().get_function(s, t, th, *xf)); };
   w.unified(factory, T_FUNCTION, "function|" + P(static_cast<const Node*>(&s)) + "|" + P(&t) + "|" + P(&th) + "|" + xk, ent(*f), Category_code::Function, again)
      .exp("source", N(s))
      .exp("target", N(t))
      .exp("throws", N(th))
      .exp("first", N(s))
      .exp("second", N(t))
      .exp("third", N(th))
      .exp("type", N(w.L().typename_type()))
      .exp("transfer.lang", Val::bytes(xf ? spelled(xf->linkage()) : "C++"))
      .exp("transfer.cc", Val::bytes(xf ? spelled(xf->convention()) : ""));
   w.functions.push_back(f);
   w.add_type(*f);
   w.note(factory);
}

std::vector<const Type*> pick_types(World& w, const Op& op)
{
   const unsigned n = op.b % 13 < 6 ? op.b % 13 : (op.b % 13 == 12 ? 12 : op.b % 6);
   std::vector<const Type*> v;
   const unsigned seeds[] = {op.c, op.d, op.e, op.f};
   for (unsigned i = 0; i < n; ++i) v.push_back(World::pick(w.types, seeds[i % 4] + (i / 4) * (op.c + 1u)));
   return v;
}

std::string seq_key(const std::vector<const Type*>& v)
{
   std::string k;
   for (auto t : v) k += P(t) + ",";
   return k;
}

template<class Node, class Get1, class Get2>
void product_or_sum(World& w, const Op& op, const char* what, int table, Category_code cat, const std::vector<const Node*>& pool, Get1 get_wh, Get2 get_seq,
                    std::vector<const Node*>& out_pool)
{
   std::vector<const Type*> elems;
   const Node* result = nullptr;
   std::string factory;
   if (op.a % 4 == 3 && !pool.empty()) {
      // the Sequence overload, called with elements() of an existing, Lexicon-owned product/sum (S2)
      const Node& src = *World::pick(pool, op.c);
      auto& seq = src.elements();
      for (std::size_t i = 0; i < seq.size(); ++i) elems.push_back(&*seq.position(i));
      result = &get_seq(seq);
      factory = std::string("get_") + what + "(Sequence)";
   }
   else {
      elems = pick_types(w, op);
      // the client's Warehouse lives on the heap, goes on being used as scratch space after the request and is then
      // destroyed: a node that kept a reference into it instead of its own copy shows extra members, then dead storage
      auto wh = std::make_unique<impl::Warehouse<Type>>();
      for (auto t : elems) wh->push_back(*t);
      result = &get_wh(*wh);
      wh->push_back(w.L().void_type());
      wh->push_back(w.L().ellipsis_type());
      wh.reset();
      factory = std::string("get_") + what + "(Warehouse)";
   }
   std::vector<Val> xs;
   for (auto t : elems) xs.push_back(N(*t));
   auto again = [get_wh, elems]() mutable {
      auto wh = std::make_unique<impl::Warehouse<Type>>();
      for (auto t : elems) wh->push_back(*t);
      return Entity{Aux::None, static_cast<const ipr::Node*>(&get_wh(*wh))};
   };
   w.unified(w.intern_name(factory), table, std::string(what) + "|" + seq_key(elems), ent(*result), cat, again)
      .exp("elements", Val::list(xs))
      .exp("operand", Val::list(xs))
      .exp("size", U(elems.size()))
      .exp("type", N(w.L().typename_type()));
   out_pool.push_back(result);
   w.add_type(*result);
   w.note(factory + " n=" + std::to_string(elems.size()));
}

void op_PRODUCT(World& w, const Op& op)
{
   auto& L = w.L();
   product_or_sum<Product>(
      w, op, "product", T_PRODUCT, Category_code::Product, w.products, [&L](const impl::Warehouse<Type>& wh) -> const Product& { return L.get_product(wh); },
      [&L](const Sequence<Type>& s) -> const Product& { return L.get_product(s); }, w.products);
}

void op_SUM(World& w, const Op& op)
{
   auto& L = w.L();
   product_or_sum<Sum>(
      w, op, "sum", T_SUM, Category_code::Sum, w.sums, [&L](const impl::Warehouse<Type>& wh) -> const Sum& { return L.get_sum(wh); },
      [&L](const Sequence<Type>& s) -> const Sum& { return L.get_sum(s); }, w.sums);
}

void op_FORALL(World& w, const Op& op)
{
   auto& s = *World::pick(w.products, op.a);
   auto& t = *World::pick(w.types, op.b);
   auto& f = w.L().get_forall(s, t);
   w.unified("get_forall", T_FORALL, "forall|" + P(static_cast<const Node*>(&s)) + "|" + P(&t), ent(f), Category_code::Forall,
             [&w, &s, &t] { return ent(w.L().get_forall(s, t)); })
      .exp("source", N(s))
      .exp("target", N(t))
      .exp("first", N(s))
      .exp("second", N(t))
      .exp("type", N(w.L().typename_type()));
   w.foralls.push_back(&f);
   w.add_type(f);
   w.note("forall");
}

void op_PTR_TO_MEMBER(World& w, const Op& op)
{
   auto& c = *World::pick(w.types, op.a);
   auto& t = *World::pick2(w.types, op.a, op.b);
   auto& p = w.L().get_ptr_to_member(c, t);
   w.unified("get_ptr_to_member", T_PTR_TO_MEMBER, "ptr_to_member|" + P(&c) + "|" + P(&t), ent(p), Category_code::Ptr_to_member,
             [&w, &c, &t] { return ent(w.L().get_ptr_to_member(c, t)); })
      .exp("containing_type", N(c))
      .exp("member_type", N(t))
      .exp("first", N(c))
      .exp("second", N(t))
      .exp("type", N(w.L().typename_type()));
   w.add_type(p);
   w.note("ptr_to_member");
}

void op_TOR(World& w, const Op& op)
{
   auto& s = *World::pick(w.products, op.a);
   auto& e = *World::pick(w.sums, op.b);
   auto& p = w.L().get_tor(s, e);
   w.unified("get_tor", T_TOR, "tor|" + P(static_cast<const Node*>(&s)) + "|" + P(static_cast<const Node*>(&e)), ent(p), Category_code::Tor,
             [&w, &s, &e] { return ent(w.L().get_tor(s, e)); })
      .exp("source", N(s))
      .exp("throws", N(e))
      .exp("first", N(s))
      .exp("second", N(e))
      .exp("type", N(w.L().typename_type()));
   w.add_type(p);
   w.note("tor");
}

void op_AS_TYPE(World& w, const Op& op)
{
   switch (op.a % 3) {
   case 0: {
      auto& id = *World::pick(w.idents, op.b);
      auto& t = w.L().get_as_type(id);
      Rec& r = w.unified("get_as_type(Identifier)", T_AS_TYPE, "as_type_id|" + P(static_cast<const Name*>(&id)), ent(t), Category_code::As_type,
                         [&w, &id] { return ent(w.L().get_as_type(id)); });
      r.exp("name", N(id)).exp("expr", N(t)).exp("operand", N(t)).exp("type", N(w.L().typename_type())).exp("transfer.lang", Val::bytes("C++")).exp("transfer.cc", Val::bytes(""));
      w.add_type(t);
      w.note("as_type(identifier)");
      break;
   }
   case 1: {
      auto& e = *World::pick(w.exprs, op.b);
      auto& t = w.L().get_as_type(e);
      w.unified("get_as_type(Expr)", T_AS_TYPE, "as_type|" + P(&e) + "|", ent(t), Category_code::As_type, [&w, &e] { return ent(w.L().get_as_type(e)); })
         .exp("expr", N(e))
         .exp("operand", N(e))
         .exp("type", N(w.L().typename_type()))
         .exp("transfer.lang", Val::bytes("C++"))
         .exp("transfer.cc", Val::bytes(""));
      w.add_type(t);
      w.note("as_type(expr)");
      break;
   }
   default: {
      auto& e = *World::pick(w.exprs, op.b);
      auto& x = *World::pick(w.transfers, op.c);
      auto& t = w.L().get_as_type(e, x);
      const std::string xk = is_natural(x) ? std::string() : xkey(x);
      w.unified("get_as_type(Expr,Transfer)", T_AS_TYPE, "as_type|" + P(&e) + "|" + xk, ent(t), Category_code::As_type, [&w, &e, &x] { return ent(w.L().get_as_type(e, x)); })
         .exp("expr", N(e))
         .exp("operand", N(e))
         .exp("type", N(w.L().typename_type()))
         .exp("transfer.lang", Val::bytes(spelled(x.linkage())))
         .exp("transfer.cc", Val::bytes(spelled(x.convention())));
      w.add_type(t);
      w.note("as_type(expr,transfer)");
      break;
   }
   }
}

void op_DECLTYPE(World& w, const Op& op)
{
   auto& e = *World::pick(w.exprs, op.a);
   auto& t = w.L().get_decltype(e);
   if (physically_same(e, w.L().nullptr_value())) {
      if (!physically_same(t, w.L().nullptr_value().type())) w.findings.fail("C13:route:get_decltype(nullptr)", "decltype(nullptr) is not nullptr_value().type()");
      return;
   }
   w.record_node("get_decltype", t, Category_code::Decltype).exp("expr", N(e)).exp("operand", N(e)).exp("type", N(w.L().typename_type()));
   w.add_type(t);
   w.note("decltype");
}

void op_AUTO(World& w, const Op&)
{
   auto& t = w.L().get_auto();
   w.record_node("get_auto", t, Category_code::Auto).exp("type", N(w.L().typename_type()));
   w.add_type(t);
   w.note("auto");
}

// ------------------------------------------------------------------ udts ----
template<class U>
void udt_common(World& w, U* u, impl::Region& parent, const char* factory, Category_code cat, const Type& kind_type, const char* opener)
{
   Rec& r = w.record_node(factory, *u, cat);
   r.exp("type", N(kind_type)).exp("region", N(u->body)).exp("name", Val::throws());
   r.mutable_container = true;
   w.add_region(&u->body, &parent, u, true, opener);
   {
      auto& sm = w.add_scope(&u->body);
      sm.udt = u;
      sm.udt_kind = std::is_same_v<U, impl::Class> ? 0 : std::is_same_v<U, impl::Union> ? 1 : std::is_same_v<U, impl::Namespace> ? 2 : 3;
   }
   w.add_type(*u);
   w.note(factory);
}

void op_CLASS(World& w, const Op& op)
{
   auto r = World::pick(w.regions, op.a);
   auto c = w.L().make_class(*r);
   udt_common(w, c, *r, "make_class", Category_code::Class, w.L().class_type(), "class");
   w.add_foreign_region(&c->base_subobjects, r, c, false, "bases");
   w.classes.push_back(c);
}

void op_UNION(World& w, const Op& op)
{
   auto r = World::pick(w.regions, op.a);
   auto u = w.L().make_union(*r);
   udt_common(w, u, *r, "make_union", Category_code::Union, w.L().union_type(), "union");
   w.unions.push_back(u);
}

void op_NAMESPACE(World& w, const Op& op)
{
   auto r = World::pick(w.regions, op.a);
   auto n = w.L().make_namespace(*r);
   udt_common(w, n, *r, "make_namespace", Category_code::Namespace, w.L().namespace_type(), "namespace");
   w.namespaces.push_back(n);
}

void op_CLOSURE(World& w, const Op& op)
{
   auto r = World::pick(w.regions, op.a);
   auto c = w.L().make_closure(*r);
   udt_common(w, c, *r, "make_closure", Category_code::Closure, w.L().class_type(), "closure");
   w.closures.push_back(c);
}

void op_ENUM(World& w, const Op& op)
{
   auto r = World::pick(w.regions, op.a);
   const auto kind = op.b % 2 ? Enum::Kind::Scoped : Enum::Kind::Legacy;
   auto e = w.L().make_enum(*r, kind);
   Rec& rec = w.record_node("make_enum", *e, Category_code::Enum);
   rec.exp("type", N(w.L().enum_type())).exp("kind", U(std::uint64_t(kind))).exp("base", Val::absent()).exp("name", Val::throws()).exp("members", Val::list({}));
   rec.mutable_container = true;
   w.add_foreign_region(&e->body, r, e, true, "enum");
   w.enums.push_back(e);
   w.add_type(*e);
   w.note("make_enum");
}

void op_UDT_NAME(World& w, const Op& op)
{
   if (w.flags.fill_at_creation) return;
   // fill: give a user-defined type its name
   auto& n = *World::pick(w.names, op.c);
   const Node* node = nullptr;
   switch (op.a % 5) {
   case 0: if (!w.classes.empty()) { auto u = World::pick(w.classes, op.b); u->id = &n; node = u; } break;
   case 1: if (!w.unions.empty()) { auto u = World::pick(w.unions, op.b); u->id = &n; node = u; } break;
   case 2: if (!w.enums.empty()) { auto u = World::pick(w.enums, op.b); u->id = &n; node = u; } break;
   case 3: if (w.namespaces.size() > 1) { auto u = w.namespaces[1 + op.b % (w.namespaces.size() - 1)]; u->id = &n; node = u; } break;
   default: if (!w.closures.empty()) { auto u = World::pick(w.closures, op.b); u->id = &n; node = u; } break;
   }
   if (node)
      if (auto r = w.rec_for(node)) r->exp("name", N(n));
   w.note("udt-name");
}

void op_ENUM_BASE(World& w, const Op& op)
{
   if (w.enums.empty() || w.flags.fill_at_creation) return;
   auto e = World::pick(w.enums, op.a);
   auto& t = *World::pick(w.types, op.b);
   e->underlying = &t;
   if (auto r = w.rec_for(static_cast<const Node*>(e))) r->exp("base", N(t));
   w.note("enum-base");
}

}   // namespace

const char* World::intern_name(const std::string& s)
{
   return name_store.insert(s).first->c_str();
}

const char* World::intern_static(const std::string& s)
{
   // the one piece of mutable state the harness shares between worlds: guarded, so that worlds on different threads (C20)
   // never race on it
   static std::mutex guard;
   static std::set<std::string> store;
   std::lock_guard<std::mutex> lock(guard);
   return store.insert(s).first->c_str();
}

void register_core_ops(std::vector<OpInfo>& t)
{
#define R(NAME, GROUP) t.push_back({#NAME, &op_##NAME, GROUP})
   R(IDENT_W, G_NAME); R(STRING, G_NAME); R(IDENT_S, G_NAME); R(OPERATOR_W, G_NAME); R(OPERATOR_S, G_NAME); R(SUFFIX, G_NAME); R(CONVERSION, G_NAME);
   R(CTOR_NAME, G_NAME); R(DTOR_NAME, G_NAME); R(GUIDE_NAME, G_NAME); R(LOGOGRAM, G_NAME); R(TEMPLATE_ID, G_NAME);
   R(LINKAGE_W, G_ATOM); R(LINKAGE_S, G_ATOM); R(CONVENTION, G_ATOM); R(TRANSFER, G_ATOM); R(SYMBOL, G_ATOM); R(LABEL, G_ATOM); R(THIS, G_ATOM);
   R(LITERAL, G_ATOM); R(PHANTOM, G_ATOM); R(ECLIPSIS, G_ATOM); R(TOKEN, G_ATTR); R(ANNOTATION, G_ATTR); R(COMMENT, G_ATTR);
   R(POINTER, G_TYPE); R(REFERENCE, G_TYPE); R(RVALUE_REF, G_TYPE); R(ARRAY, G_TYPE); R(QUALIFIED, G_TYPE); R(FUNCTION, G_TYPE); R(PRODUCT, G_TYPE);
   R(SUM, G_TYPE); R(FORALL, G_TYPE); R(PTR_TO_MEMBER, G_TYPE); R(TOR, G_TYPE); R(AS_TYPE, G_TYPE); R(DECLTYPE, G_TYPE); R(AUTO, G_TYPE);
   R(CLASS, G_UDT); R(UNION, G_UDT); R(NAMESPACE, G_UDT); R(CLOSURE, G_UDT); R(ENUM, G_UDT); R(UDT_NAME, G_FILL); R(ENUM_BASE, G_FILL);
#undef R
}

}   // namespace eng
