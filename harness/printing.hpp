// Guarded printing: runs the XPR printer on a big-stack thread through a
// stream buffer that watches the stack depth and the output volume, so that
// unbounded recursion becomes a clean, shrinkable failure.
#pragma once
#include "engine.hpp"
#include <atomic>
#include <unordered_set>

namespace eng {

// true if no cycle is reachable from `root` over the edges a printer may follow
// (a conservative superset: every node-valued accessor except the documented
// back links enclosing/owner/master/decl_set/home/lexical region/from/iteration...)
// `known_good`: nodes already shown to reach no cycle (valid as long as the graph is not modified)
bool printable_acyclic(const Entity& root, std::size_t* visited = nullptr, std::string* why = nullptr, std::unordered_set<const void*>* known_good = nullptr);

PrintResult guarded_print(const ipr::Lexicon& lex, PrintWhat what, const void* target, bool locations);

// true: prints run on the calling thread (2 MiB depth guard) instead of a dedicated 64 MiB-stack worker (C20: many short-lived threads)
std::atomic<bool>& inline_printing();

void print_op(World& w, const Op& op);
void print_sweep(World& w, std::size_t cap_per_pool);

}   // namespace eng
