// Guarded printing: runs the XPR printer on a big-stack thread through a
// stream buffer that watches the stack depth and the output volume, so that
// unbounded recursion becomes a clean, shrinkable failure.
#pragma once
#include "engine.hpp"

namespace eng {

// true if no cycle is reachable from `root` over the edges a printer may follow
// (a conservative superset: every node-valued accessor except the documented
// back links enclosing/owner/master/decl_set/home/lexical region/from/iteration...)
bool printable_acyclic(const Entity& root, std::size_t* visited = nullptr, std::string* why = nullptr);

PrintResult guarded_print(const ipr::Lexicon& lex, PrintWhat what, const void* target, bool locations);

void print_op(World& w, const Op& op);
void print_sweep(World& w, std::size_t cap_per_pool);

}   // namespace eng
