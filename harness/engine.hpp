// Construction-script engine shared by the script-driven properties.
//
//   Script  = vector<Op>;  every byte string decodes to a valid script.
//   World   = one impl::Lexicon plus units/modules and harness-owned side
//             stores; the interpreter executes ops against it, keeps typed
//             pools of everything created, and logs one Rec per creation with
//             the *expected record* (what the interface must report, written
//             from factory signatures and interface documentation only).
//   observe = calls every accessor of a node by its documented name and
//             renders the answers as a flat list of fields.
#pragma once

#include "outcome.hpp"

#include <algorithm>
#include <cstring>
#include <functional>
#include <set>
#include <sstream>

#include <ipr/impl>
#include <ipr/io>
#include <ipr/traversal>

#include <deque>
#include <list>
#include <memory>
#include <unordered_map>
#include <unordered_set>

namespace eng {

// ------------------------------------------------------------------ script --
struct Op {
   std::uint16_t code = 0;
   std::uint8_t a = 0, b = 0, c = 0, d = 0, e = 0, f = 0;
   bool operator==(const Op&) const = default;
};
using Script = std::vector<Op>;

struct Case {
   std::string profile;      // which weight table decodes `code`
   Script ops;
   std::vector<std::uint8_t> aux;   // property-specific extra bytes (perturbation choice, thread split, ...)
};

std::string to_text(const Case&);
bool from_text(const std::string&, Case&);
std::ostream& operator<<(std::ostream&, const Case&);

// ------------------------------------------------------------------ values --
// One observed / expected answer of an accessor.
struct Val {
   enum Kind : std::uint8_t { Absent, Ref, Num, Text, Seq, Throws, Foreign, TypeOf, Any } kind = Absent;
   const void* ref = nullptr;    // Ref: address of the ipr::Node base, or of the interface object for non-nodes
   bool is_node = false;         // Ref: whether `ref` is an ipr::Node (not part of equality)
   std::uint64_t num = 0;
   std::string text;             // Text: bytes; Foreign: exception type
   std::vector<Val> seq;
   static Val node(const ipr::Node& n) { Val v; v.kind = Ref; v.ref = &n; v.is_node = true; return v; }
   static Val obj(const void* p) { Val v; v.kind = Ref; v.ref = p; return v; }
   static Val number(std::uint64_t x) { Val v; v.kind = Num; v.num = x; return v; }
   static Val bytes(std::string s) { Val v; v.kind = Text; v.text = std::move(s); return v; }
   static Val absent() { return Val{}; }
   static Val throws() { Val v; v.kind = Throws; return v; }
   static Val any() { Val v; v.kind = Any; return v; }
   // expected only: "whatever type() of that node answers now (a node or the refusal)"
   static Val type_of(const ipr::Expr& e) { Val v; v.kind = TypeOf; v.ref = &e; return v; }
   static Val list(std::vector<Val> xs) { Val v; v.kind = Seq; v.seq = std::move(xs); return v; }
   bool operator==(const Val& o) const;
   std::string show() const;
};

struct Fact {
   std::string name;
   Val val;
};
using Obs = std::vector<Fact>;
const Val* find(const Obs&, const std::string& name);

// Non-node interface objects the factories also produce.
enum class Aux : std::uint8_t {
   None, Linkage, Convention, Transfer, Logogram, Token, Attribute, Capture, CaptureSpec, Constraint, Requirement, Indirector,
   Morphism, Species, Declarator, Provision, ElemInit, Designator, Earmarked, Substitution, Unit, Module, UsingDesignator
};

struct Entity {
   Aux aux = Aux::None;           // None: `ptr` is a const ipr::Node*
   const void* ptr = nullptr;
   bool operator==(const Entity&) const = default;
   const ipr::Node* node() const { return aux == Aux::None ? static_cast<const ipr::Node*>(ptr) : nullptr; }
};

struct ObsStats {
   long accessors = 0, refused = 0, foreign = 0, oob_refused = 0, oob_bad = 0;
   std::vector<std::string> foreign_where;   // "Category.accessor: type"
   std::vector<std::string> seq_bad;         // sequence protocol violations
   std::vector<std::string> mistyped;        // "Category.accessor: ..." -- a returned reference whose dynamic type is not its static type
};

// Observe every accessor of the entity.  `deep_seq` also exercises the
// sequence protocol (size/begin/end/position/out-of-range) of every sequence met.
Obs observe(const Entity&, ObsStats* stats = nullptr, bool seq_protocol = false);
const char* category_name(ipr::Category_code);
int category_count();

// --------------------------------------------------------------------- log --
struct Rec {
   int op_index = -1;
   std::string factory;        // e.g. "get_pointer", "make_plus", "Scope::make_var"
   Entity ent;
   ipr::Category_code want_cat = ipr::Category_code::Unknown;   // category of the interface requested (nodes)
   bool generative = false;    // make_*: must be a fresh node
   std::string key;            // get_*: canonical request key (empty if not unified)
   int table = -1;             // unification table id the request goes to
   Obs expect;                 // expected record
   bool mutable_container = false;   // may legitimately gain members at its end
   std::function<Entity()> again;    // repeat the very same request (unified only)
   Rec& exp(const std::string& name, Val v)
   {
      for (auto& f : expect)
         if (f.name == name) { f.val = std::move(v); return *this; }
      expect.push_back({name, std::move(v)});
      return *this;
   }
};

// ------------------------------------------------------------------- world --
struct StmtH {
   const ipr::Stmt* stmt = nullptr;
   ipr::Source_location* src = nullptr;   // where the harness may stamp a location
   ipr::Unit_location* unit = nullptr;
   ipr::impl::ref_sequence<ipr::Attribute>* attrs = nullptr;
   ipr::impl::ref_sequence<ipr::Annotation>* notes = nullptr;
};

struct BlockH {
   const ipr::Block* blk = nullptr;
   ipr::impl::Region* region = nullptr;
   ipr::impl::Block* full = nullptr;            // a block that can take handlers
   ipr::impl::handler_block* hb = nullptr;      // the body of a handler
   const ipr::Region* parent = nullptr;
};

struct DeclH {
   const ipr::Decl* decl = nullptr;
   int kind = -1;              // 0 alias 1 var 2 field 3 bitfield 4 typedecl 5 fundecl 6 primary template 7 secondary template, 8.. unique decls
   ipr::impl::Scope* scope = nullptr;
   const ipr::Name* name = nullptr;
   const ipr::Type* type = nullptr;
   void* impl = nullptr;       // the impl:: object, for fill ops
};

struct ScopeModel {            // C07 reference model of one heterogeneous scope
   ipr::impl::Scope* scope = nullptr;
   const ipr::Region* region = nullptr;
   std::vector<int> decls;     // indices into World::decls, in entry order
   ipr::impl::Region* iregion = nullptr;   // the heterogeneous region owning the scope
   int udt_kind = -1;          // 0 class 1 union 2 namespace 3 closure: the region is the body of that user-defined type
   void* udt = nullptr;
};

struct RegionModel {           // C12 reference model
   const ipr::Region* region = nullptr;
   const ipr::Region* parent = nullptr;   // null for a global region
   const ipr::Node* owner = nullptr;      // expected owner (null: none expected / unspecified)
   bool owner_specified = false;          // whether the property prescribes the owner
   int depth = 0;
   const char* opener = "";
};

struct Findings {
   std::string prop;           // only signatures of this property are kept
   vf::Outcome* out = nullptr;
   void fail(const std::string& sig, const std::string& msg) const
   {
      if (out && sig.compare(0, prop.size(), prop) == 0) out->fail(sig, msg);
   }
   void count(const std::string& k, long n = 1) const { if (out) out->count(k, n); }
};

struct Flags {
   bool safe_spellings = false;    // C17/C18: identifiers and literals that cannot spell a location token
   bool fill_at_creation = false;  // C05: settable links are set inside the creating op and never re-assigned
   bool no_junk = false;
   bool no_locate = false;         // C17: the location-free twin of a program
   bool complete_decls = false;    // C17: bit-fields, functions and templates get width / parameters / mapping inside the declaring op
   bool reverse_prelude = false;   // C17: the constructor's prelude ops run in reverse order (their leaves get the opposite address order)
   int heap_shuffle = 0;           // C17: before every op, allocate and free unrelated blocks (seeded by this value) so that later nodes reuse them out of order
   bool distinct_operands = true;
   int bulk_limit = 640;
   int print_weight_cap = 2000;
};

// ---------------------------------------------------------------- printing --
struct PrintResult {
   enum Status { Completed, Refused, Foreign, Runaway, TooBig, SkippedCyclic } status = Completed;
   std::string text;            // bytes written (also partial output when the print ended early)
   std::string what;            // exception text / type
   bool stream_state_changed = false;
   std::string stream_state_detail;
   int indent_before = 0, indent_after = 0;
   std::size_t max_stack = 0;   // deepest stack seen by the stream buffer during the print
   std::string probe;           // how numbers render through the same printer / stream after the node
};
enum PrintWhat { P_UNIT, P_DECL, P_TYPE, P_EXPR, P_STMT };
struct PrintRecord {
   PrintWhat what = P_UNIT;
   const void* target = nullptr;     // Translation_unit* for P_UNIT, Expr* otherwise
   ipr::Category_code cat = ipr::Category_code::Unknown;
   bool locations = false;
   PrintResult result;
};

struct World;
using OpFn = void (*)(World&, const Op&);
struct OpInfo {
   const char* name;
   OpFn fn;
   int group;
};
enum Group { G_NAME, G_ATOM, G_TYPE, G_UDT, G_EXPR, G_STMT, G_DECL, G_MEMBER, G_DIR, G_FORM, G_ATTR, G_UNIT, G_REGION, G_FILL, G_SUBST, G_HARNESS, G_COUNT };
const std::vector<OpInfo>& op_table();
// cumulative weight table of a profile
struct Profile {
   std::string name;
   std::vector<int> cumulative;
   int total = 0;
   int decode(std::uint16_t code) const;
};
const Profile& profile(const std::string& name);
std::vector<std::string> profile_names();

struct World {
   explicit World(const Flags& f, Findings fnd, std::shared_ptr<ipr::impl::Lexicon> shared = {});   // `shared`: build in an existing (pre-populated) Lexicon
   ~World();
   World(const World&) = delete;

   Flags flags;
   Findings findings;
   std::shared_ptr<ipr::impl::Lexicon> lex;
   std::list<ipr::impl::Translation_unit> units;
   std::list<ipr::impl::Module> modules;
   ipr::impl::attr_factory attrs_f;
   ipr::impl::capture_spec_factory caps_f;
   std::deque<ipr::impl::Token> token_store;
   std::deque<ipr::impl::Annotation> annotation_store;
   std::deque<ipr::impl::Comment> comment_store;
   std::list<ipr::impl::ref_sequence<ipr::Attribute>> attr_seq_store;   // harness-owned sequences handed to attribute factories
   std::list<ipr::impl::Warehouse<ipr::Type>> warehouses;

   // ---- pools (never empty after construction) ----
   std::vector<const ipr::String*> strs;
   std::vector<const ipr::Identifier*> idents;
   std::vector<const ipr::Name*> names;
   std::vector<const ipr::Logogram*> logos;
   std::vector<const ipr::Linkage*> linkages;
   std::vector<const ipr::Calling_convention*> convs;
   std::vector<const ipr::Transfer*> transfers;
   std::map<const ipr::Transfer*, std::string> transfer_spelled;   // how each transfer was spelled when it was requested: language \x1f convention
   std::vector<const ipr::Type*> types;
   std::vector<const ipr::Type*> plain_types;      // not Qualified
   std::vector<const ipr::Type*> qualified_types;  // Qualified (operands for nested qualification)
   std::vector<const ipr::Product*> products;
   std::vector<const ipr::Sum*> sums;
   std::vector<const ipr::Function*> functions;
   std::vector<const ipr::Forall*> foralls;
   std::vector<const ipr::Expr*> exprs;
   std::vector<const ipr::Expr*> typed_exprs;      // exprs whose type() answers
   std::vector<const ipr::Literal*> literals;
   std::vector<ipr::impl::Expr_list*> xlists;
   std::vector<const ipr::Enclosure*> enclosures;
   std::vector<const ipr::Construction*> constructions;
   std::vector<const ipr::Scope_ref*> scope_refs;
   std::vector<StmtH> stmts;
   std::vector<BlockH> blocks;
   std::vector<ipr::impl::Handler*> handlers;
   std::vector<DeclH> decls;
   std::vector<ipr::impl::Var*> vars;
   std::vector<ipr::impl::Template*> templates;
   std::vector<const ipr::Parameter*> params;
   std::vector<ipr::impl::Region*> regions;        // heterogeneous regions new things can be created in
   std::vector<const ipr::Region*> all_regions;
   std::vector<ipr::impl::Class*> classes;
   std::vector<ipr::impl::Union*> unions;
   std::vector<ipr::impl::Enum*> enums;
   std::vector<ipr::impl::Namespace*> namespaces;
   std::vector<ipr::impl::Closure*> closures;
   std::vector<ipr::impl::Mapping*> mappings;
   std::vector<ipr::impl::Lambda*> lambdas;
   std::vector<ipr::impl::Requires*> requireses;
   std::vector<ipr::impl::Parameter_list*> plists;
   std::vector<ipr::impl::Elementary_substitution*> esubsts;
   std::vector<ipr::impl::General_substitution*> gsubsts;
   std::vector<const ipr::Substitution*> substs;
   std::vector<const ipr::Token*> tokens;
   std::vector<const ipr::Attribute*> attributes;
   std::vector<const ipr::Capture_specification*> capspecs;
   std::vector<const ipr::Capture_specification::Named*> named_capspecs;
   std::vector<const ipr::cxx_form::Constraint*> constraints;
   std::vector<const ipr::cxx_form::Requirement*> requirements;
   std::vector<const ipr::cxx_form::Indirector*> indirectors;
   std::vector<const ipr::cxx_form::Morphism*> morphisms;
   std::vector<ipr::cxx_form::Species_declarator*> species;
   std::vector<ipr::impl::ref_sequence<ipr::cxx_form::Morphism>*> species_suffix;   // parallel to `species`
   std::vector<std::pair<Entity, ipr::impl::ref_sequence<ipr::Attribute>*>> attr_hosts;   // attribute sequences of forms
   std::vector<const ipr::cxx_form::Declarator::Term*> terms;
   std::vector<const ipr::cxx_form::Initialization_provision*> provisions;
   std::vector<const ipr::cxx_form::Elemental_initializer*> elem_inits;
   std::vector<const ipr::cxx_form::Subobject_designator*> designators;
   // mutable form objects for fill ops
   std::vector<ipr::cxx_form::impl::Polyadic_constraint*> polyadics;
   std::vector<ipr::cxx_form::impl::Compound_requirement*> compounds;
   std::vector<ipr::cxx_form::impl::Term_declarator*> term_impls;
   std::vector<ipr::cxx_form::impl::Parenthesized_species*> paren_species;
   std::vector<ipr::cxx_form::impl::Function_morphism*> fun_morphisms;
   std::vector<ipr::cxx_form::impl::Array_morphism*> array_morphisms;
   std::vector<ipr::cxx_form::impl::Braced_provision*> braceds;
   std::vector<ipr::cxx_form::impl::Designated_list_provision*> designateds;
   std::vector<ipr::impl::Specifiers_spread*> spreads;
   std::vector<ipr::impl::Structured_binding*> sbindings;
   std::vector<ipr::impl::Using_declaration*> usings;
   std::vector<ipr::impl::Pragma*> pragmas;
   std::vector<ipr::impl::Where*> wheres;
   std::vector<ipr::impl::Instantiation*> insts;
   std::vector<ipr::impl::For*> fors;
   std::vector<ipr::impl::For_in*> for_ins;
   std::vector<ipr::impl::Break*> breaks;
   std::vector<ipr::impl::Continue*> continues;
   std::vector<ipr::impl::Switch*> switches;
   std::vector<ipr::impl::While*> whiles;
   std::vector<ipr::impl::Do*> dos;
   std::vector<ipr::impl::Id_expr*> id_exprs;
   std::vector<ipr::impl::New*> news;

   std::vector<Entity> constants;                        // process-wide constants reachable through the Lexicon
   const ipr::Identifier* this_ident = nullptr;

   // ---- log and models ----
   std::deque<Rec> log;   // deque: references to records stay valid while ops append
   std::unordered_map<const void*, int> rec_of;          // entity pointer -> index of its (first) Rec
   std::map<std::string, Entity> first_by_key;           // unification model: canonical key -> entity first returned
   std::map<std::string, int> key_born;                  // key -> table insertion counter when first seen
   std::vector<long> table_inserts;                      // per unification table: number of fresh keys so far
   std::unordered_map<const void*, std::string> key_of_entity;   // reverse map, for "different arguments, same node"
   std::vector<ScopeModel> scopes;
   std::vector<RegionModel> region_models;
   std::map<const ipr::impl::General_substitution*, std::map<const ipr::Parameter*, const ipr::Expr*>> gsubst_model;
   std::map<const ipr::impl::Elementary_substitution*, std::pair<const ipr::Parameter*, const ipr::Expr*>> esubst_model;
   std::set<std::string> spellings;                      // every spelling handed to the library
   std::set<std::string> stamped_locations;              // every F<file>:<line>[:<col>] a LOCATE op ever stamped (decimal)
   int step = 0;
   long junk_bytes = 0;
   std::vector<std::unique_ptr<char[]>> junk;
   std::vector<PrintRecord> prints;                      // outcomes of PRINT ops
   std::unordered_set<const void*> acyclic_known;        // nodes known to reach no cycle; emptied by every op (the graph may have changed)
   std::unordered_map<const void*, std::size_t> expr_index;   // position in `exprs` (creation order)
   std::vector<std::string> trace;                       // human-readable op trace (for samples / diagnostics)
   std::map<std::string, long> counters;
   std::set<std::string> factories_used;
   std::vector<int> unified_recs;                        // indices of unified requests, for REPEAT

   // ---- helpers used by the op implementations ----
   ipr::impl::Lexicon& L() { return *lex; }
   template<class T> static const T& pick(const std::vector<T>& pool, unsigned k) { return pool[k % pool.size()]; }
   template<class T> static const T& pick2(const std::vector<T>& pool, unsigned first, unsigned k)
   {   // an element different from pool[first % n] whenever the pool allows
      const std::size_t n = pool.size();
      if (n < 2) return pool[0];
      return pool[(first % n + 1 + k % (n - 1)) % n];
   }
   Op last_op{};            // the most recent op other than AGAIN, and its index in the op table
   int last_kind = -1;
   std::u8string spelling(unsigned a, unsigned b);
   Rec& record(const char* factory, Entity e, ipr::Category_code cat, bool generative);
   Rec& record_node(const char* factory, const ipr::Node& n, ipr::Category_code cat, bool generative = true)
   {
      return record(factory, Entity{Aux::None, &n}, cat, generative);
   }
   // unified request: checks the model, records, returns the Rec
   Rec& unified(const char* factory, int table, const std::string& key, Entity got, ipr::Category_code cat, std::function<Entity()> again);
   Rec* rec_for(const void* p)
   {
      auto it = rec_of.find(p);
      return it == rec_of.end() ? nullptr : &log[it->second];
   }
   void add_expr(const ipr::Expr& e, bool typed);
   // an expression created before `target` (keeps fills from closing a cycle, S6)
   const ipr::Expr& expr_before(const ipr::Expr& target, unsigned k) const;
   const ipr::Stmt* stmt_before(const ipr::Expr& target, unsigned k) const;
   void add_type(const ipr::Type& t);
   void add_name(const ipr::Name& n);
   void add_stmt(StmtH h) { stmts.push_back(h); }
   void add_region(ipr::impl::Region* r, const ipr::Region* parent, const ipr::Node* owner, bool owner_specified, const char* opener);
   void add_foreign_region(const ipr::Region* r, const ipr::Region* parent, const ipr::Node* owner, bool owner_specified, const char* opener);
   int depth_of(const ipr::Region* r) const;
   ScopeModel& add_scope(ipr::impl::Region* r);
   void note(const std::string& s) { if (trace.size() < 4000) trace.push_back(s); }
   const char* intern_name(const std::string&);
   static const char* intern_static(const std::string&);   // process-lifetime copy (accessor names)
   std::set<std::string> name_store;

   void run(const Case& c);                 // execute all ops
   void exec(const Op& op, const Profile& p);
   ipr::impl::Translation_unit& unit0() { return units.front(); }
};

template<class S> StmtH stmt_handle(S* s)
{
   return StmtH{s, &s->src_locus, &s->unit_locus, &s->attrs, &s->notes};
}

// registration of the op implementations (fixed order => stable opcode numbering)
void register_core_ops(std::vector<OpInfo>&);
void register_expr_ops(std::vector<OpInfo>&);
void register_decl_ops(std::vector<OpInfo>&);
int op_index(const char* name);

// unification tables
enum Table {
   T_STRING, T_IDENT, T_OPERATOR, T_SUFFIX, T_CONVERSION, T_CTOR, T_DTOR, T_GUIDE, T_LOGOGRAM, T_TEMPLATE_ID, T_LINKAGE, T_CONVENTION,
   T_SYMBOL, T_LITERAL, T_TRANSFER, T_ARRAY, T_QUALIFIED, T_FUNCTION, T_POINTER, T_PRODUCT, T_PTR_TO_MEMBER, T_REFERENCE, T_RVALUE_REF,
   T_SUM, T_FORALL, T_TOR, T_AS_TYPE, T_COUNT
};
const char* table_prop(int table);   // which property owns the unification of that table ("C01", "C03", "C04")

// ----------------------------------------------------------------- oracles --
// Each returns its findings through World::findings (filtered by property).
void oracle_unification_final(World&);          // C01 / C04: re-request every key
void oracle_identifier_census(World&);          // C04
void oracle_value_equality(World&);             // C04 / C15
void oracle_readback(World&);                   // C02
void oracle_types(World&);                      // C09
void oracle_categories(World&);                 // C06
void oracle_storage_reuse(World&);              // C06: dispatch answers are a function of the node alone (storage recycled between nodes)
void oracle_scopes(World&);                     // C07
void oracle_regions(World&);                    // C12
void oracle_accessors(World&, bool all);        // C14
void oracle_derived(World&);                    // C15
void oracle_substitutions(World&);              // C16
void oracle_constants(World&);                  // C13

struct Snapshot {
   std::vector<std::pair<Entity, Obs>> items;
};
void take_snapshot(World&, Snapshot&, std::size_t from = 0);
void oracle_stability(World&, const Snapshot& before, bool growth_allowed, const char* when, const char* signature = "C05:snapshot-changed:");   // C05, C17
void oracle_fresh_nodes(World&);                                                                // C05 generative distinctness

std::string render_trace(const World&, std::size_t max_lines = 60);
void run_mapping_op(World&, const Op&);   // MAPPING, callable from composite ops
std::uint64_t structural_digest(World&, std::vector<const void*>* node_addresses = nullptr);   // C20: address-free digest of every node created

}   // namespace eng
