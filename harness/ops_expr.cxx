// Ops for expressions and statements.  Uniform families are table driven: the
// table row names the factory, so the opcode table *is* the list of factories.
#include "interp_util.hpp"

namespace eng {
using namespace ipr;

namespace {

const Type* opt_type(World& w, unsigned flag, unsigned k) { return flag % 3 == 0 ? nullptr : World::pick(w.types, k); }
Optional<Type> as_opt(const Type* t) { return t ? Optional<Type>{t} : Optional<Type>{}; }
Val type_expect(const Type* t) { return t ? N(*t) : Val::throws(); }

// ------------------------------------------------------------ unary family --
struct UnaryRow {
   const char* factory;
   Category_code cat;
   bool classic;
   int shape;          // 0: (Expr, Optional<Type>)  1: (Expr, Type)  2: (Expr)
   const Expr* (*make)(World&, const Expr&, const Type*);
   const char* alias;  // additional documented accessor naming the operand
   int fixed;          // 0 none, 1 bool (restriction)
};

#define U_OPT(fn, Cat, classic, alias) \
   {#fn, Category_code::Cat, classic, 0, [](World& w, const Expr& e, const Type* t) -> const Expr* { return w.L().fn(e, as_opt(t)); }, alias, 0}
#define U_REQ(fn, Cat, classic, alias) \
   {#fn, Category_code::Cat, classic, 1, [](World& w, const Expr& e, const Type* t) -> const Expr* { return w.L().fn(e, *t); }, alias, 0}
#define U_NONE(fn, Cat, classic, alias, fixed) \
   {#fn, Category_code::Cat, classic, 2, [](World& w, const Expr& e, const Type*) -> const Expr* { return w.L().fn(e); }, alias, fixed}

const UnaryRow unary_rows[] = {
   U_OPT(make_address, Address, true, nullptr),
   U_NONE(make_array_delete, Array_delete, true, "storage", 0),
   U_OPT(make_complement, Complement, true, nullptr),
   U_NONE(make_delete, Delete, true, "storage", 0),
   U_REQ(make_demotion, Demotion, false, nullptr),
   U_OPT(make_deref, Deref, true, nullptr),
   U_OPT(make_alignof, Alignof, false, nullptr),
   U_OPT(make_sizeof, Sizeof, false, nullptr),
   U_OPT(make_args_cardinality, Args_cardinality, false, nullptr),
   U_OPT(make_typeid, Typeid, false, nullptr),
   U_NONE(make_restriction, Restriction, false, nullptr, 1),
   U_REQ(make_materialization, Materialization, false, nullptr),
   U_OPT(make_not, Not, true, nullptr),
   U_OPT(make_post_increment, Post_increment, true, nullptr),
   U_OPT(make_post_decrement, Post_decrement, true, nullptr),
   U_OPT(make_pre_increment, Pre_increment, true, nullptr),
   U_OPT(make_pre_decrement, Pre_decrement, true, nullptr),
   U_REQ(make_promotion, Promotion, false, nullptr),
   U_REQ(make_read, Read, false, nullptr),
   U_OPT(make_throw, Throw, true, "exception"),
   U_OPT(make_unary_minus, Unary_minus, true, nullptr),
   U_OPT(make_unary_plus, Unary_plus, true, nullptr),
   U_OPT(make_expansion, Expansion, true, nullptr),
   U_OPT(make_noexcept, Noexcept, false, nullptr),
};
constexpr unsigned n_unary = sizeof unary_rows / sizeof unary_rows[0];

void op_UNARY(World& w, const Op& op)
{
   const UnaryRow& row = unary_rows[op.a % n_unary];
   auto& e = *World::pick(w.exprs, op.b);
   const Type* t = row.shape == 0 ? opt_type(w, op.c, op.d) : (row.shape == 1 ? World::pick(w.types, op.d) : nullptr);
   const Expr* x = row.make(w, e, t);
   Rec& r = w.record_node(row.factory, *x, row.cat);
   r.exp("operand", N(e));
   if (row.alias) r.exp(row.alias, N(e));
   if (row.fixed == 1) r.exp("type", N(w.L().bool_type()));
   else r.exp("type", type_expect(t));
   if (row.classic) r.exp("implementation", Val::absent());
   w.add_expr(*x, t != nullptr || row.fixed != 0);
   w.note(row.factory);
}

// ----------------------------------------------------------- binary family --
struct BinaryRow {
   const char* factory;
   Category_code cat;
   bool classic;
   const Expr* (*make)(World&, const Expr&, const Expr&, const Type*);
   const char* alias1;
   const char* alias2;
};

#define B_ROW(fn, Cat, classic, a1, a2) \
   {#fn, Category_code::Cat, classic, [](World& w, const Expr& l, const Expr& r, const Type* t) -> const Expr* { return w.L().fn(l, r, as_opt(t)); }, a1, a2}

const BinaryRow binary_rows[] = {
   B_ROW(make_and, And, true, nullptr, nullptr),
   B_ROW(make_array_ref, Array_ref, true, "base", "member"),
   B_ROW(make_arrow, Arrow, true, "base", "member"),
   B_ROW(make_arrow_star, Arrow_star, true, "base", "member"),
   B_ROW(make_assign, Assign, true, nullptr, nullptr),
   B_ROW(make_bitand, Bitand, true, nullptr, nullptr),
   B_ROW(make_bitand_assign, Bitand_assign, true, nullptr, nullptr),
   B_ROW(make_bitor, Bitor, true, nullptr, nullptr),
   B_ROW(make_bitor_assign, Bitor_assign, true, nullptr, nullptr),
   B_ROW(make_bitxor, Bitxor, true, nullptr, nullptr),
   B_ROW(make_bitxor_assign, Bitxor_assign, true, nullptr, nullptr),
   B_ROW(make_comma, Comma, true, nullptr, nullptr),
   B_ROW(make_div, Div, true, nullptr, nullptr),
   B_ROW(make_div_assign, Div_assign, true, nullptr, nullptr),
   B_ROW(make_dot, Dot, true, "base", "member"),
   B_ROW(make_dot_star, Dot_star, true, "base", "member"),
   B_ROW(make_equal, Equal, true, nullptr, nullptr),
   B_ROW(make_greater, Greater, true, nullptr, nullptr),
   B_ROW(make_greater_equal, Greater_equal, true, nullptr, nullptr),
   B_ROW(make_less, Less, true, nullptr, nullptr),
   B_ROW(make_less_equal, Less_equal, true, nullptr, nullptr),
   B_ROW(make_lshift, Lshift, true, nullptr, nullptr),
   B_ROW(make_lshift_assign, Lshift_assign, true, nullptr, nullptr),
   B_ROW(make_member_init, Member_init, false, "member", "initializer"),
   B_ROW(make_minus, Minus, true, nullptr, nullptr),
   B_ROW(make_minus_assign, Minus_assign, true, nullptr, nullptr),
   B_ROW(make_modulo, Modulo, true, nullptr, nullptr),
   B_ROW(make_modulo_assign, Modulo_assign, true, nullptr, nullptr),
   B_ROW(make_mul, Mul, true, nullptr, nullptr),
   B_ROW(make_mul_assign, Mul_assign, true, nullptr, nullptr),
   B_ROW(make_not_equal, Not_equal, true, nullptr, nullptr),
   B_ROW(make_or, Or, true, nullptr, nullptr),
   B_ROW(make_plus, Plus, true, nullptr, nullptr),
   B_ROW(make_plus_assign, Plus_assign, true, nullptr, nullptr),
   B_ROW(make_scope_ref, Scope_ref, true, "scope", "member"),
   B_ROW(make_rshift, Rshift, true, nullptr, nullptr),
   B_ROW(make_rshift_assign, Rshift_assign, true, nullptr, nullptr),
};
constexpr unsigned n_binary = sizeof binary_rows / sizeof binary_rows[0];

void op_BINARY(World& w, const Op& op)
{
   const BinaryRow& row = binary_rows[op.a % n_binary];
   auto& l = *World::pick(w.exprs, op.b);
   auto& rr = *World::pick2(w.exprs, op.b, op.c);
   const Type* t = opt_type(w, op.d, op.e);
   const Expr* x = row.make(w, l, rr, t);
   Rec& r = w.record_node(row.factory, *x, row.cat);
   r.exp("first", N(l)).exp("second", N(rr)).exp("type", type_expect(t));
   if (row.alias1) r.exp(row.alias1, N(l));
   if (row.alias2) r.exp(row.alias2, N(rr));
   if (row.classic) r.exp("implementation", Val::absent());
   if (row.cat == Category_code::Scope_ref) w.scope_refs.push_back(static_cast<const Scope_ref*>(x));
   w.add_expr(*x, t != nullptr);
   w.note(row.factory);
}

// ------------------------------------------------------------------- casts --
void op_CAST(World& w, const Op& op)
{
   auto& t = *World::pick(w.types, op.b);
   auto& e = *World::pick(w.exprs, op.c);
   const Expr* x = nullptr;
   const char* f = "";
   Category_code cat{};
   switch (op.a % 5) {
   case 0: x = w.L().make_cast(t, e); f = "make_cast"; cat = Category_code::Cast; break;
   case 1: x = w.L().make_const_cast(t, e); f = "make_const_cast"; cat = Category_code::Const_cast; break;
   case 2: x = w.L().make_dynamic_cast(t, e); f = "make_dynamic_cast"; cat = Category_code::Dynamic_cast; break;
   case 3: x = w.L().make_reinterpret_cast(t, e); f = "make_reinterpret_cast"; cat = Category_code::Reinterpret_cast; break;
   default: x = w.L().make_static_cast(t, e); f = "make_static_cast"; cat = Category_code::Static_cast; break;
   }
   w.record_node(f, *x, cat).exp("first", N(t)).exp("second", N(e)).exp("expr", N(e)).exp("type", N(t)).exp("implementation", Val::absent());
   w.add_expr(*x, true);
   w.note(f);
}

void op_CONV3(World& w, const Op& op)
{
   auto& e = *World::pick(w.exprs, op.b);
   auto& t = *World::pick(w.types, op.c);
   auto& t2 = *World::pick2(w.types, op.c, op.d);
   const Expr* x = nullptr;
   const char* f = "";
   const char* alias = "";
   Category_code cat{};
   bool classic = false;
   switch (op.a % 4) {
   case 0: x = w.L().make_coercion(e, t, t2); f = "make_coercion"; alias = "target"; cat = Category_code::Coercion; classic = true; break;
   case 1: x = w.L().make_narrow(e, t, t2); f = "make_narrow"; alias = "derived"; cat = Category_code::Narrow; break;
   case 2: x = w.L().make_pretend(e, t, t2); f = "make_pretend"; alias = "target"; cat = Category_code::Pretend; break;
   default: x = w.L().make_widen(e, t, t2); f = "make_widen"; alias = "base"; cat = Category_code::Widen; break;
   }
   Rec& r = w.record_node(f, *x, cat);
   r.exp("first", N(e)).exp("second", N(t)).exp("expr", N(e)).exp(alias, N(t)).exp("type", N(t2));
   if (classic) r.exp("implementation", Val::absent());
   w.add_expr(*x, true);
   w.note(f);
}

void op_QUALIFICATION(World& w, const Op& op)
{
   auto& e = *World::pick(w.exprs, op.a);
   const Qualifiers q{op.b % 8u};
   auto& t = *World::pick(w.types, op.c);
   auto x = w.L().make_qualification(e, q, t);
   w.record_node("make_qualification", *x, Category_code::Qualification)
      .exp("first", N(e))
      .exp("second", U(op.b % 8u))
      .exp("expr", N(e))
      .exp("qualifiers", U(op.b % 8u))
      .exp("type", N(t));
   w.add_expr(*x, true);
   w.note("make_qualification");
}

void op_ENCLOSURE(World& w, const Op& op)
{
   const Delimiter d{int(op.a % 5)};
   auto& e = *World::pick(w.exprs, op.b);
   const Type* t = opt_type(w, op.c, op.d);
   auto x = w.L().make_enclosure(d, e, as_opt(t));
   w.record_node("make_enclosure", *x, Category_code::Enclosure).exp("delimiters", U(op.a % 5)).exp("expr", N(e)).exp("operand", N(e)).exp("type", type_expect(t));
   w.enclosures.push_back(x);
   w.add_expr(*x, t != nullptr);
   w.note("make_enclosure");
}

void op_CONSTRUCTION(World& w, const Op& op)
{
   auto& t = *World::pick(w.types, op.a);
   auto& enc = *World::pick(w.enclosures, op.b);
   auto x = w.L().make_construction(t, enc);
   w.record_node("make_construction", *x, Category_code::Construction)
      .exp("arguments", N(enc))
      .exp("operand", N(enc))
      .exp("type", N(t))
      .exp("implementation", Val::absent());
   w.constructions.push_back(x);
   w.add_expr(*x, true);
   w.note("make_construction");
}

void op_CALL(World& w, const Op& op)
{
   auto& f = *World::pick(w.exprs, op.a);
   const Expr_list& xl = *World::pick(w.xlists, op.b);
   const Type* t = opt_type(w, op.c, op.d);
   auto x = w.L().make_call(f, xl, as_opt(t));
   w.record_node("make_call", *x, Category_code::Call)
      .exp("function", N(f))
      .exp("args", N(xl))
      .exp("first", N(f))
      .exp("second", N(xl))
      .exp("type", type_expect(t))
      .exp("implementation", Val::absent());
   w.add_expr(*x, t != nullptr);
   w.note("make_call");
}

void op_NEW(World& w, const Op& op)
{
   const Expr_list* pl = op.a % 2 ? static_cast<const Expr_list*>(World::pick(w.xlists, op.b)) : nullptr;
   auto& c = *World::pick(w.constructions, op.c);
   const Type* t = opt_type(w, op.d, op.e);
   auto x = w.L().make_new(pl ? Optional<Expr_list>{pl} : Optional<Expr_list>{}, c, as_opt(t));
   if (op.f % 2) x->global = true;
   w.record_node("make_new", *x, Category_code::New)
      .exp("placement", pl ? N(*pl) : Val::absent())
      .exp("first", pl ? N(*pl) : Val::absent())
      .exp("initializer", N(c))
      .exp("second", N(c))
      .exp("global_requested", U(op.f % 2))
      .exp("type", type_expect(t))
      .exp("implementation", Val::absent());
   w.news.push_back(x);
   w.add_expr(*x, t != nullptr);
   w.note("make_new");
}

void op_CONDITIONAL(World& w, const Op& op)
{
   auto& a = *World::pick(w.exprs, op.a);
   auto& b = *World::pick2(w.exprs, op.a, op.b);
   auto& c = *World::pick2(w.exprs, op.a + 1u + op.b, op.c);
   const Type* t = opt_type(w, op.d, op.e);
   auto x = w.L().make_conditional(a, b, c, as_opt(t));
   w.record_node("make_conditional", *x, Category_code::Conditional)
      .exp("condition", N(a))
      .exp("then_expr", N(b))
      .exp("else_expr", N(c))
      .exp("first", N(a))
      .exp("second", N(b))
      .exp("third", N(c))
      .exp("type", type_expect(t))
      .exp("implementation", Val::absent());
   w.add_expr(*x, t != nullptr);
   w.note("make_conditional");
}

void op_BINARY_FOLD(World& w, const Op& op)
{
   const int ncodes = int(Category_code::last_code_cat);
   const Category_code code{1 + (op.a + 256 * (op.f % 2)) % (ncodes - 1)};
   auto& a = *World::pick(w.exprs, op.b);
   auto& b = *World::pick2(w.exprs, op.b, op.c);
   const Type* t = opt_type(w, op.d, op.e);
   auto x = w.L().make_binary_fold(code, a, b, as_opt(t));
   w.record_node("make_binary_fold", *x, Category_code::Binary_fold)
      .exp("operation", U(std::uint64_t(code)))
      .exp("first", N(a))
      .exp("second", N(b))
      .exp("type", type_expect(t))
      .exp("implementation", Val::absent());
   w.add_expr(*x, t != nullptr);
   w.note("make_binary_fold");
}

void op_REWRITE(World& w, const Op& op)
{
   auto& s = *World::pick(w.exprs, op.a);
   auto& t = *World::pick2(w.exprs, op.a, op.b);
   auto x = w.L().make_rewrite(s, t);
   w.record_node("make_rewrite", *x, Category_code::Rewrite).exp("source", N(s)).exp("target", N(t)).exp("first", N(s)).exp("second", N(t)).exp("type", Val::type_of(t));
   w.add_expr(*x, false);
   w.note("make_rewrite");
}

void op_WHERE_ND(World& w, const Op& op)
{
   auto& m = *World::pick(w.exprs, op.a);
   auto& a = *World::pick2(w.exprs, op.a, op.b);
   auto x = w.L().make_where(m, a);
   w.record_node("make_where(Expr,Expr)", *x, Category_code::Where).exp("main", N(m)).exp("attendant", N(a)).exp("first", N(m)).exp("second", N(a)).exp("type", Val::type_of(m));
   w.add_expr(*x, false);
   w.note("make_where(e,e)");
}

void op_WHERE(World& w, const Op& op)
{
   auto r = World::pick(w.regions, op.a);
   auto x = w.L().make_where(*r);
   Rec& rec = w.record_node("make_where(Region)", *x, Category_code::Where);
   rec.exp("main", Val::throws()).exp("first", Val::throws()).exp("attendant", N(x->region.scope)).exp("second", N(x->region.scope)).exp("type", Val::throws());
   w.add_region(&x->region, r, nullptr, false, "where");
   w.add_scope(&x->region);
   w.wheres.push_back(x);
   if (w.flags.fill_at_creation || w.flags.complete_decls || op.b % 2) {
      auto& m = *World::pick(w.exprs, op.c);
      x->result = &m;
      rec.exp("main", N(m)).exp("first", N(m)).exp("type", Val::type_of(m));
   }
   w.add_expr(*x, false);
   w.note("make_where(region)");
}

void op_WHERE_FILL(World& w, const Op& op)
{
   if (w.wheres.empty() || w.flags.fill_at_creation) return;
   auto x = World::pick(w.wheres, op.a);
   auto& m = w.expr_before(*x, op.b);
   x->result = &m;
   if (auto r = w.rec_for(static_cast<const Node*>(x))) r->exp("main", N(m)).exp("first", N(m)).exp("type", Val::type_of(m));
   w.note("where-fill");
}

void op_INSTANTIATION(World& w, const Op& op)
{
   if (w.substs.empty()) return;
   // the pattern is any expression; half of the time a mapping (what templates are instantiated from), one of the few most
   // recent ones, so that one pattern meets several substitutions
   const Expr* pattern = World::pick(w.exprs, op.a);
   if (op.e % 2 && !w.mappings.empty()) pattern = w.mappings[w.mappings.size() - 1 - op.a % std::min<std::size_t>(3, w.mappings.size())];
   auto& e = *pattern;
   auto& s = *World::pick(w.substs, op.b);
   auto x = w.L().make_instantiation(e, s);
   Rec& rec = w.record_node("make_instantiation", *x, Category_code::Instantiation);
   rec.exp("pattern", N(e)).exp("substitution", Val::obj(&s)).exp("instance", Val::absent()).exp("type", Val::throws());
   w.insts.push_back(x);
   if (w.flags.fill_at_creation || w.flags.complete_decls || op.c % 2) {
      auto& i = *World::pick(w.exprs, op.d);
      x->result = &i;
      rec.exp("instance", N(i)).exp("type", Val::type_of(i));
   }
   w.add_expr(*x, false);
   w.note("make_instantiation");
}

void op_INST_FILL(World& w, const Op& op)
{
   if (w.insts.empty() || w.flags.fill_at_creation) return;
   auto x = World::pick(w.insts, op.a);
   auto& i = w.expr_before(*x, op.b);
   x->result = &i;
   if (auto r = w.rec_for(static_cast<const Node*>(x))) r->exp("instance", N(i)).exp("type", Val::type_of(i));
   w.note("instantiation-fill");
}

void op_ID_EXPR_N(World& w, const Op& op)
{
   auto& n = *World::pick(w.names, op.a);
   const Type* t = opt_type(w, op.b, op.c);
   auto x = w.L().make_id_expr(n, as_opt(t));
   w.record_node("make_id_expr(Name)", *x, Category_code::Id_expr).exp("name", N(n)).exp("operand", N(n)).exp("resolution", Val::absent()).exp("type", type_expect(t));
   w.id_exprs.push_back(x);
   w.add_expr(*x, t != nullptr);
   w.note("make_id_expr(name)");
}

void op_ID_EXPR_D(World& w, const Op& op)
{
   // make_id_expr(Decl) itself reads name() and type() of the declaration (S5)
   std::vector<const Decl*> ok;
   for (auto& d : w.decls)
      if (d.kind <= 9) ok.push_back(d.decl);
   if (ok.empty()) return;
   const Decl& d = *World::pick(ok, op.a);
   auto x = w.L().make_id_expr(d);
   w.record_node("make_id_expr(Decl)", *x, Category_code::Id_expr).exp("name", N(d.name())).exp("operand", N(d.name())).exp("resolution", N(d)).exp("type", N(d.type()));
   w.id_exprs.push_back(x);
   w.add_expr(*x, true);
   w.note("make_id_expr(decl)");
}

void op_LABEL_X(World& w, const Op& op)
{
   auto& id = *World::pick(w.idents, op.a);
   const Type* t = opt_type(w, op.b, op.c);
   auto x = w.L().make_label(id, as_opt(t));
   w.record_node("make_label", *x, Category_code::Label).exp("name", N(id)).exp("operand", N(id)).exp("type", type_expect(t));
   w.add_expr(*x, t != nullptr);
   w.note("make_label");
}

void op_XLIST(World& w, const Op& op)
{
   auto x = w.L().make_expr_list();
   Rec& r = w.record_node("make_expr_list", *x, Category_code::Expr_list);
   r.exp("elements", Val::list({})).exp("operand", Val::list({})).exp("size", U(0));
   r.mutable_container = true;
   w.xlists.push_back(x);
   w.add_expr(*x, true);
   const unsigned n = op.a % 4;   // usually pre-populated a little
   for (unsigned i = 0; i < n; ++i) {
      auto& e = *World::pick(w.typed_exprs, op.b + i * (op.c + 1u));
      if (&e == static_cast<const Expr*>(x)) continue;
      x->push_back(&e);
   }
   std::vector<Val> xs;
   for (std::size_t i = 0; i < x->size(); ++i) xs.push_back(N(*x->elements().position(i)));
   r.exp("elements", Val::list(xs)).exp("operand", Val::list(xs)).exp("size", U(xs.size()));
   w.note("make_expr_list");
}

void op_XLIST_PUSH(World& w, const Op& op)
{
   auto x = World::pick(w.xlists, op.a);
   auto& e = *World::pick(op.c % 4 ? w.typed_exprs : w.exprs, op.b);
   if (&e == static_cast<const Expr*>(x)) return;
   x->push_back(&e);
   if (auto r = w.rec_for(static_cast<const Node*>(x))) {
      std::vector<Val> xs;
      for (std::size_t i = 0; i < x->size(); ++i) xs.push_back(N(*x->elements().position(i)));
      r->exp("elements", Val::list(xs)).exp("operand", Val::list(xs)).exp("size", U(xs.size()));
   }
   w.findings.count("member_additions");
   w.note("expr_list.push_back");
}

// ---------------------------------------------------- parameterized things --
void record_plist(World& w, impl::Parameter_list& pl, const Region* parent, const Node* owner, bool owner_specified, const char* opener, unsigned level)
{
   Rec& r = w.record_node("Parameter_list", pl, Category_code::Parameter_list, false);
   r.exp("level", U(level)).exp("region", N(pl.parms)).exp("elements", Val::list({})).exp("size", U(0));
   r.mutable_container = true;
   w.add_foreign_region(&pl.parms, parent, owner, owner_specified, opener);
   w.plists.push_back(&pl);
}

void op_MAPPING(World& w, const Op& op)
{
   auto r = World::pick(w.regions, op.a);
   const unsigned level = op.b % 4;
   impl::Mapping* m = op.c % 2 ? w.L().make_mapping(*r, Mapping_level{level}) : w.L().expr_factory::make_mapping(*r, Mapping_level{level});
   Rec& rec = w.record_node(op.c % 2 ? "Lexicon::make_mapping" : "expr_factory::make_mapping", *m, Category_code::Mapping);
   rec.exp("parameters", N(m->inputs)).exp("result", Val::throws()).exp("type", Val::throws());
   record_plist(w, m->inputs, r, m, true, "mapping", level);
   w.mappings.push_back(m);
   if (w.flags.fill_at_creation || w.flags.complete_decls || op.d % 2) {
      auto& body = *World::pick(w.exprs, op.e);
      // a printable mapping is typed by a function or a template type
      auto& t = w.flags.complete_decls && !w.functions.empty() && (op.f % 4 != 3 || w.foralls.empty()) ? static_cast<const Type&>(*World::pick(w.functions, op.f))
                : (w.flags.complete_decls && !w.foralls.empty() ? static_cast<const Type&>(*World::pick(w.foralls, op.f)) : *World::pick(w.types, op.f));
      m->body = &body;
      m->typing = &t;
      rec.exp("result", N(body)).exp("type", N(t));
   }
   w.add_expr(*m, false);
   w.note("make_mapping");
}

void op_MAP_FILL(World& w, const Op& op)
{
   if (w.mappings.empty() || w.flags.fill_at_creation) return;
   auto m = World::pick(w.mappings, op.a);
   auto& body = w.expr_before(*m, op.b);
   m->body = &body;
   auto rec = w.rec_for(static_cast<const Node*>(m));
   if (rec) rec->exp("result", N(body));
   if (op.c % 2) {
      const Type& t = op.c % 4 == 1 && !w.functions.empty() ? static_cast<const Type&>(*World::pick(w.functions, op.d))
                      : (op.c % 4 == 3 && !w.foralls.empty() ? static_cast<const Type&>(*World::pick(w.foralls, op.d)) : *World::pick(w.types, op.d));
      m->typing = &t;
      if (rec) rec->exp("type", N(t));
   }
   w.note("mapping-fill");
}

// S4: parameter names within one list are distinct
const Name* fresh_param_name(World& w, impl::Parameter_list& pl, unsigned k)
{
   for (unsigned tries = 0; tries < w.names.size(); ++tries) {
      const Name* n = World::pick(w.names, k + tries);
      bool used = false;
      auto& seq = pl.elements();
      for (std::size_t i = 0; i < seq.size(); ++i)
         if (physically_same(seq.position(i)->name(), *n)) used = true;
      if (!used) return n;
   }
   return nullptr;
}

void op_PLIST_ADD(World& w, const Op& op)
{
   if (w.plists.empty()) return;
   auto pl = World::pick(w.plists, op.a);
   const Name* n = fresh_param_name(w, *pl, op.b);
   if (!n) return;
   auto& t = *World::pick(w.types, op.c);
   const std::size_t pos = pl->elements().size();
   impl::Parameter* p = nullptr;
   // Mapping::param is the documented route for mappings; add_member for the others
   impl::Mapping* owner_map = nullptr;
   for (auto m : w.mappings)
      if (&m->inputs == pl) owner_map = m;
   p = owner_map && op.d % 2 ? owner_map->param(*n, t) : pl->add_member(*n, t);
   Rec& r = w.record_node(owner_map && op.d % 2 ? "Mapping::param" : "Parameter_list::add_member", *p, Category_code::Parameter);
   r.exp("name", N(*n))
      .exp("type", N(t))
      .exp("position", U(pos))
      .exp("level", U(std::uint64_t(pl->level())))
      .exp("home_region", N(pl->parms))
      .exp("lexical_region", N(pl->parms))
      .exp("initializer", Val::absent())
      .exp("default_value", Val::absent())
      .exp("master", N(*p))
      .exp("decl_set", Val::list({N(*p)}))
      .exp("specifiers", U(0));
   if (op.e % 3 == 0) {
      auto& init = *World::pick(w.exprs, op.f);
      p->init = &init;
      r.exp("initializer", N(init)).exp("default_value", N(init));
   }
   w.params.push_back(p);
   DeclH h;
   h.decl = p;
   h.kind = 8;
   h.name = n;
   h.type = &t;
   h.impl = p;
   w.decls.push_back(h);
   w.add_stmt(stmt_handle(p));
   w.add_expr(*p, true);
   if (auto lr = w.rec_for(static_cast<const Node*>(pl))) {
      std::vector<Val> xs;
      for (std::size_t i = 0; i < pl->elements().size(); ++i) xs.push_back(N(*pl->elements().position(i)));
      lr->exp("elements", Val::list(xs)).exp("size", U(xs.size()));
   }
   w.findings.count("member_additions");
   w.note("parameter");
}

// Several hundred members in one go: a parameter list (or an enumeration) longer than any small integer type can count,
// so positions, levels and home regions are checked far beyond the first few dozen members.
void op_MEMBER_FLOOD(World& w, const Op& op)
{
   const unsigned count = 260 + op.c % 60;
   char8_t buf[16];
   auto name_for = [&](unsigned i) -> const Identifier& {
      int n = std::snprintf(reinterpret_cast<char*>(buf), sizeof buf, "fm%u_%u", unsigned(op.d), i);
      return w.L().get_identifier(util::word_view(buf, std::size_t(n)));
   };
   if (op.a % 2 == 0) {
      if (w.plists.empty() || w.counters["parameter_floods"] >= 1) return;
      auto pl = World::pick(w.plists, op.b);
      ++w.counters["parameter_floods"];
      auto& t = *World::pick(w.types, op.e);
      for (unsigned i = 0; i < count; ++i) {
         const Identifier& id = name_for(i);
         bool used = false;
         auto& seq = pl->elements();
         for (std::size_t k = 0; k < seq.size() && k < 64 && !used; ++k) used = physically_same(seq.position(k)->name(), id);   // earlier members come from the name pool
         if (!used) pl->add_member(id, t);
      }
      if (auto lr = w.rec_for(static_cast<const Node*>(pl))) {
         std::vector<Val> xs;
         for (std::size_t i = 0; i < pl->elements().size(); ++i) xs.push_back(N(*pl->elements().position(i)));
         lr->exp("elements", Val::list(xs)).exp("size", U(xs.size()));
      }
   }
   else {
      if (w.enums.empty() || w.counters["enumerator_floods"] >= 1) return;
      auto e = World::pick(w.enums, op.b);
      ++w.counters["enumerator_floods"];
      for (unsigned i = 0; i < count; ++i) e->add_member(name_for(i));
      if (auto er = w.rec_for(static_cast<const Node*>(e))) {
         std::vector<Val> xs;
         for (std::size_t i = 0; i < e->members().size(); ++i) xs.push_back(N(*e->members().position(i)));
         er->exp("members", Val::list(xs));
      }
   }
   w.findings.count("member_additions");
   w.findings.count("member_floods");
   w.note("member flood");
}

void op_LAMBDA(World& w, const Op& op)
{
   auto r = World::pick(w.regions, op.a);
   const unsigned level = op.b % 4;
   auto x = w.L().make_lambda(*r, Mapping_level{level});
   Rec& rec = w.record_node("make_lambda", *x, Category_code::Lambda);
   rec.exp("parameters", N(x->inputs))
      .exp("result", Val::throws())
      .exp("type", Val::throws())
      .exp("target", Val::absent())
      .exp("requirement", Val::absent())
      .exp("eh_specification", Val::absent())
      .exp("specifiers", U(0))
      .exp("attributes", Val::list({}))
      .exp("captures", Val::list({}));
   rec.mutable_container = true;
   record_plist(w, x->inputs, r, x, true, "lambda", level);
   w.lambdas.push_back(x);
   if (w.flags.fill_at_creation && !w.closures.empty()) {
      auto c = World::pick(w.closures, op.c);
      x->typing = c;
      rec.exp("type", N(*c));
      auto& body = *World::pick(w.exprs, op.d);
      x->body = &body;
      rec.exp("result", N(body));
   }
   w.add_expr(*x, false);
   w.note("make_lambda");
}

void op_LAMBDA_FILL(World& w, const Op& op)
{
   if (w.lambdas.empty() || w.flags.fill_at_creation) return;
   auto x = World::pick(w.lambdas, op.a);
   auto rec = w.rec_for(static_cast<const Node*>(x));
   switch (op.b % 7) {
   case 0:
      if (!w.closures.empty()) {
         auto c = World::pick(w.closures, op.c);
         x->typing = c;
         if (rec) rec->exp("type", N(*c));
      }
      break;
   case 1: {
      auto& body = w.expr_before(*x, op.c);
      x->body = &body;
      if (rec) rec->exp("result", N(body));
      break;
   }
   case 2: {
      auto& t = *World::pick(w.types, op.c);
      x->value_type = &t;
      if (rec) rec->exp("target", N(t));
      break;
   }
   case 3: {
      auto& e = w.expr_before(*x, op.c);
      x->decl_constraint = &e;
      if (rec) rec->exp("requirement", N(e));
      break;
   }
   case 4: {
      auto& e = w.expr_before(*x, op.c);
      x->eh = &e;
      if (rec) rec->exp("eh_specification", N(e));
      break;
   }
   case 5:
      x->lam_spec = Lambda_specifiers{op.c % 8u};
      if (rec) rec->exp("specifiers", U(op.c % 8u));
      break;
   default:
      if (!w.capspecs.empty()) {
         auto cs = World::pick(w.capspecs, op.c);
         x->env_spec.push_back(cs);
         if (rec) {
            std::vector<Val> xs;
            for (std::size_t i = 0; i < x->captures().size(); ++i) xs.push_back(Val::obj(&*x->captures().position(i)));
            rec->exp("captures", Val::list(xs));
         }
         w.findings.count("member_additions");
      }
      break;
   }
   w.note("lambda-fill");
}

void op_REQUIRES(World& w, const Op& op)
{
   auto r = World::pick(w.regions, op.a);
   const unsigned level = op.b % 4;
   auto x = w.L().make_requires(*r, Mapping_level{level});
   Rec& rec = w.record_node("make_requires", *x, Category_code::Requires);
   rec.exp("parameters", N(x->formals)).exp("type", N(w.L().bool_type())).exp("body", Val::list({}));
   rec.mutable_container = true;
   record_plist(w, x->formals, r, nullptr, false, "requires", level);
   w.requireses.push_back(x);
   w.add_expr(*x, true);
   w.note("make_requires");
}

void op_REQ_PUSH(World& w, const Op& op)
{
   if (w.requireses.empty() || w.requirements.empty()) return;
   auto x = World::pick(w.requireses, op.a);
   auto rq = World::pick(w.requirements, op.b);
   x->requirements.push_back(rq);
   if (auto rec = w.rec_for(static_cast<const Node*>(x))) {
      std::vector<Val> xs;
      for (std::size_t i = 0; i < x->body().size(); ++i) xs.push_back(Val::obj(&*x->body().position(i)));
      rec->exp("body", Val::list(xs));
   }
   w.findings.count("member_additions");
   w.note("requires.push");
}

void op_ASM(World& w, const Op& op)
{
   auto& s = *World::pick(w.strs, op.a);
   auto pe = w.L().make_asm(s);
   const Expr& inner = pe->expression();
   w.record_node("make_asm_expr", inner, Category_code::Asm).exp("text", N(s)).exp("operand", N(s)).exp("type", N(w.L().void_type()));
   w.record_node("make_asm", *pe, Category_code::Phased_evaluation).exp("phases", U(std::uint64_t(Phases::Code_generation))).exp("type", Val::type_of(inner));
   w.add_expr(inner, true);
   w.add_expr(*pe, true);
   w.note("make_asm");
}

void op_STATIC_ASSERT(World& w, const Op& op)
{
   auto& e = *World::pick(w.exprs, op.a);
   const String* msg = op.b % 2 ? World::pick(w.strs, op.c) : nullptr;
   auto pe = w.L().make_static_assert(e, msg ? Optional<String>{msg} : Optional<String>{});
   const Expr& inner = pe->expression();
   w.record_node("make_static_assert_expr", inner, Category_code::Static_assert)
      .exp("condition", N(e))
      .exp("first", N(e))
      .exp("message", msg ? N(*msg) : Val::absent())
      .exp("second", msg ? N(*msg) : Val::absent())
      .exp("type", N(w.L().bool_type()));
   w.record_node("make_static_assert", *pe, Category_code::Phased_evaluation).exp("phases", U(std::uint64_t(Phases::Elaboration))).exp("type", Val::type_of(inner));
   w.add_expr(inner, true);
   w.add_expr(*pe, true);
   w.note("make_static_assert");
}

// ----------------------------------------------------------- substitutions --
void op_SUBST_E(World& w, const Op& op)
{
   if (w.params.empty()) return;
   auto& p = *World::pick(w.params, op.a);
   // the bound value is any expression; now and then another parameter, or the parameter itself (the identity binding)
   const Expr* value = World::pick(w.exprs, op.b);
   if (op.c % 8 == 1) value = World::pick(w.params, op.b);
   if (op.c % 8 == 2) value = &p;
   auto& e = *value;
   auto s = w.L().make_elementary_substitution(p, e);
   w.record("make_elementary_substitution", Entity{Aux::Substitution, static_cast<const Substitution*>(s)}, Category_code::Unknown, true);
   w.esubsts.push_back(s);
   w.esubst_model[s] = {&p, &e};
   w.substs.push_back(s);
   // exactly its one binding, from the start: the bound parameter and a few others are asked right away
   {
      const Substitution& sub = *s;
      if (&sub[p] != &e) w.findings.fail("C16:elementary:inside-domain", "a fresh elementary substitution does not yield the value it was built with");
      for (unsigned k = 0; k < 3 && k < w.params.size(); ++k) {
         const Parameter& q = *World::pick(w.params, op.d + k);
         if (&q != &p && &sub[q] != static_cast<const Expr*>(&q)) w.findings.fail("C16:elementary:outside-domain", "a fresh elementary substitution replaces a parameter it was not built with");
      }
   }
   w.note("elementary-substitution");
}

void op_SUBST_G(World& w, const Op&)
{
   auto s = w.L().make_general_substitution();
   if (w.gsubst_model.count(s))
      w.findings.fail("C16:general:aliased", "make_general_substitution returned a substitution handed out before: bindings given to one appear in the other");
   w.record("make_general_substitution", Entity{Aux::Substitution, static_cast<const Substitution*>(s)}, Category_code::Unknown, true);
   w.gsubsts.push_back(s);
   w.gsubst_model[s];
   w.substs.push_back(s);
   w.note("general-substitution");
}

// One query of a general substitution against the model, made in the middle of the history (a finite map answers
// from its current bindings whatever was asked before).
static void query_general(World& w, const impl::General_substitution* s, const Parameter& p, const char* when)
{
   auto& m = w.gsubst_model[s];
   const Expr& got = (*static_cast<const Substitution*>(s))[p];
   auto it = m.find(&p);
   const Expr& want = it != m.end() ? *it->second : static_cast<const Expr&>(p);
   if (&got != &want)
      w.findings.fail(it != m.end() ? "C16:general:inside-domain" : "C16:general:outside-domain", std::string("a general substitution answered the wrong expression (") + when + ")");
   w.findings.count(it != m.end() ? "queries_inside_domain" : "queries_outside_domain");
   w.findings.count("interleaved_queries");
}

void op_SUBST_BIND(World& w, const Op& op)
{
   if (w.gsubsts.empty() || w.params.empty()) return;
   if (op.f % 16 == 15) {
      // a burst: 24-47 bindings in a row over few parameters (so most of them re-bind), no query in between, then every
      // parameter is asked -- whatever the substitution defers until the first lookup is exercised at size
      auto s = World::pick(w.gsubsts, op.a);
      auto& m = w.gsubst_model[s];
      const unsigned count = 24 + op.e % 24;
      for (unsigned i = 0; i < count; ++i) {
         auto& p = *World::pick(w.params, op.b + (i * 7 + i / 3) % 11);
         auto& e = *World::pick(w.exprs, op.c + i * 5);
         if (m.count(&p)) w.findings.count("rebindings");
         s->subst(p, e);
         m[&p] = &e;
         w.findings.count("bindings");
      }
      for (std::size_t k = 0; k < w.params.size() && k < 64; ++k) query_general(w, s, *w.params[k], "after a burst of bindings");
      w.findings.count("binding_bursts");
      w.note("subst.burst");
      return;
   }
   auto s = World::pick(w.gsubsts, op.a);
   auto& p = *World::pick(w.params, op.b);
   auto& e = *World::pick(w.exprs, op.c);
   auto& m = w.gsubst_model[s];
   // queries interleaved with the bindings: the same parameter just before and just after it is (re)bound, optionally
   // with another parameter asked in between
   if (op.d % 4 != 0) query_general(w, s, p, "before binding");
   if (op.d % 4 == 2) query_general(w, s, *World::pick(w.params, op.e), "other parameter before binding");
   if (m.count(&p)) w.findings.count("rebindings");
   auto& back = s->subst(p, e);
   if (&back != s) w.findings.fail("C16:subst-returns-other", "General_substitution::subst did not return the substitution itself");
   m[&p] = &e;
   w.findings.count("bindings");
   if (op.d % 4 == 3) query_general(w, s, *World::pick(w.params, op.e), "other parameter after binding");
   if (op.d % 8 != 0) query_general(w, s, p, "after binding");
   w.note("subst.bind");
}

// -------------------------------------------------------------- statements --
static impl::Block* block_in(World& w, impl::Region* r, const Type* t)
{
   auto b = w.L().make_block(*r, as_opt(t));
   Rec& rec = w.record_node("make_block", *b, Category_code::Block);
   rec.exp("region", N(b->lexical_region)).exp("body", Val::list({})).exp("handlers", Val::list({})).exp("type", type_expect(t));
   rec.mutable_container = true;
   w.add_region(&b->lexical_region, r, b, true, "block");
   w.add_scope(&b->lexical_region);
   w.blocks.push_back(BlockH{b, &b->lexical_region, b, nullptr, r});
   w.add_stmt(stmt_handle(b));
   w.add_expr(*b, t != nullptr);
   w.note("make_block");
   return b;
}

void op_BLOCK(World& w, const Op& op)
{
   auto r = World::pick(w.regions, op.a);
   const Type* t = opt_type(w, op.b, op.c);
   block_in(w, r, t);
}

void refresh_block(World& w, const BlockH& h);

// A statement wrapped in 2..13 blocks, each created in the region of the one around it: deep nesting (and deep
// indentation when printed) out of one op.
void op_DEEP_BLOCK(World& w, const Op& op)
{
   if (w.stmts.empty()) return;
   const Expr& innermost = static_cast<const Expr&>(*World::pick(w.stmts, op.c).stmt);
   const int depth = 2 + op.a % 12;
   impl::Region* r = World::pick(w.regions, op.b);
   impl::Block* outer = nullptr;
   impl::Block* prev = nullptr;
   for (int d = 0; d < depth; ++d) {
      impl::Block* b = block_in(w, r, nullptr);
      if (!outer) outer = b;
      if (prev) {
         prev->add_stmt(*b);
         refresh_block(w, w.blocks[w.blocks.size() - 2]);
         w.findings.count("member_additions");
      }
      prev = b;
      r = &b->lexical_region;
   }
   prev->add_stmt(innermost);
   refresh_block(w, w.blocks.back());
   w.findings.count("member_additions");
   w.findings.count("deep_block_nests");
   w.note("deep block nest of " + std::to_string(depth));
}

void refresh_block(World& w, const BlockH& h)
{
   if (auto rec = w.rec_for(static_cast<const Node*>(h.blk))) {
      std::vector<Val> xs;
      for (std::size_t i = 0; i < h.blk->body().size(); ++i) xs.push_back(N(*h.blk->body().position(i)));
      rec->exp("body", Val::list(xs));
      std::vector<Val> hs;
      for (std::size_t i = 0; i < h.blk->handlers().size(); ++i) hs.push_back(N(*h.blk->handlers().position(i)));
      rec->exp("handlers", Val::list(hs));
   }
}

void op_ADD_STMT(World& w, const Op& op)
{
   if (w.blocks.empty()) return;
   auto& h = World::pick(w.blocks, op.a);
   const Expr& s = op.c % 3 && !w.stmts.empty() ? static_cast<const Expr&>(*World::pick(w.stmts, op.b).stmt) : *World::pick(w.exprs, op.b);
   if (&s == static_cast<const Expr*>(h.blk)) return;
   if (h.full) h.full->add_stmt(s);
   else h.hb->add_stmt(s);
   refresh_block(w, h);
   w.findings.count("member_additions");
   w.note("block.add_stmt");
}

void op_NEW_HANDLER(World& w, const Op& op)
{
   std::vector<const BlockH*> full;
   for (auto& b : w.blocks)
      if (b.full) full.push_back(&b);
   if (full.empty()) return;
   const BlockH h = *World::pick(full, op.a);   // by value: the pool grows below
   auto& n = *World::pick(w.names, op.b);
   auto& t = *World::pick(w.types, op.c);
   auto hd = h.full->new_handler(n, t);
   const Block& body = static_cast<const Handler*>(hd)->body();
   const EH_parameter& ex = hd->exception();
   Rec& rec = w.record_node("Block::new_handler", *hd, Category_code::Handler);
   rec.exp("exception", N(ex)).exp("body", N(body)).exp("type", Val::type_of(body));
   // exception parameter
   const Region& ehr = body.region().enclosing();
   w.record_node("Handler::exception", ex, Category_code::EH_parameter, false)
      .exp("name", N(n))
      .exp("type", N(t))
      .exp("initializer", Val::absent())
      .exp("master", N(ex))
      .exp("decl_set", Val::list({N(ex)}))
      .exp("specifiers", U(0));
   // the handler's body: a Block whose region is enclosed by the region binding the exception parameter,
   // itself enclosed by the region that encloses the guarded block
   impl::handler_block& hb = hd->body();
   Rec& brec = w.record_node("Handler::body", body, Category_code::Block, false);
   brec.exp("region", N(hb.lexical_region)).exp("body", Val::list({})).exp("handlers", Val::list({})).exp("type", Val::throws());
   brec.mutable_container = true;
   w.add_foreign_region(&ehr, h.parent, nullptr, false, "handler-parameter");
   w.add_region(&hb.lexical_region, &ehr, &body, true, "handler-body");
   w.add_scope(&hb.lexical_region);
   w.blocks.push_back(BlockH{&body, &hb.lexical_region, nullptr, &hb, &ehr});
   w.handlers.push_back(hd);
   w.add_stmt(stmt_handle(hd));
   w.add_stmt(stmt_handle(&hb));
   DeclH dh;
   dh.decl = &ex;
   dh.kind = 11;
   dh.name = &n;
   dh.type = &t;
   w.decls.push_back(dh);
   w.add_expr(*hd, false);
   w.add_expr(body, false);
   // find the handle again (the vector may have grown) and refresh the guarded block's expected handlers
   for (auto& b : w.blocks)
      if (b.full == h.full) {
         refresh_block(w, b);
         break;
      }
   w.findings.count("member_additions");
   w.findings.count("handlers");
   w.note("block.new_handler");
}

void op_EXPR_STMT(World& w, const Op& op)
{
   auto& e = *World::pick(w.exprs, op.a);
   auto s = w.L().make_expr_stmt(e);
   w.record_node("make_expr_stmt", *s, Category_code::Expr_stmt).exp("expr", N(e)).exp("operand", N(e)).exp("type", Val::type_of(e));
   w.add_stmt(stmt_handle(s));
   w.add_expr(*s, false);
   w.note("make_expr_stmt");
}

void op_RETURN(World& w, const Op& op)
{
   auto& e = *World::pick(w.exprs, op.a);
   auto s = w.L().make_return(e);
   w.record_node("make_return", *s, Category_code::Return).exp("value", N(e)).exp("operand", N(e)).exp("type", Val::throws());
   w.add_stmt(stmt_handle(s));
   w.add_expr(*s, false);
   w.note("make_return");
}

void op_GOTO(World& w, const Op& op)
{
   auto& e = *World::pick(w.exprs, op.a);
   auto s = w.L().make_goto(e);
   w.record_node("make_goto", *s, Category_code::Goto).exp("target", N(e)).exp("operand", N(e)).exp("type", Val::type_of(e));
   w.add_stmt(stmt_handle(s));
   w.add_expr(*s, false);
   w.note("make_goto");
}

void op_LABELED(World& w, const Op& op)
{
   auto& l = *World::pick(w.exprs, op.a);
   auto& st = *World::pick2(w.exprs, op.a, op.b);
   auto s = w.L().make_labeled_stmt(l, st);
   w.record_node("make_labeled_stmt", *s, Category_code::Labeled_stmt).exp("label", N(l)).exp("stmt", N(st)).exp("first", N(l)).exp("second", N(st)).exp("type", Val::type_of(st));
   w.add_stmt(stmt_handle(s));
   w.add_expr(*s, false);
   w.note("make_labeled_stmt");
}

void op_IF(World& w, const Op& op)
{
   auto& c = *World::pick(w.exprs, op.b);
   auto& t = *World::pick2(w.exprs, op.b, op.c);
   if (op.a % 2) {
      auto& f = *World::pick2(w.exprs, op.b + 1u + op.c, op.d);
      auto s = w.L().make_if(c, t, f);
      w.record_node("make_if(c,t,f)", *s, Category_code::If)
         .exp("condition", N(c))
         .exp("consequence", N(t))
         .exp("alternative", N(f))
         .exp("first", N(c))
         .exp("second", N(t))
         .exp("third", N(f))
         .exp("type", Val::throws());
      w.add_stmt(stmt_handle(s));
      w.add_expr(*s, false);
   }
   else {
      auto s = w.L().make_if(c, t);
      w.record_node("make_if(c,t)", *s, Category_code::If)
         .exp("condition", N(c))
         .exp("consequence", N(t))
         .exp("alternative", Val::absent())
         .exp("first", N(c))
         .exp("second", N(t))
         .exp("third", Val::absent())
         .exp("type", Val::throws());
      w.add_stmt(stmt_handle(s));
      w.add_expr(*s, false);
   }
   w.note("make_if");
}

template<class S>
void controlled(World& w, const Op& op, S* s, const char* factory, Category_code cat, std::vector<S*>& pool)
{
   Rec& rec = w.record_node(factory, *s, cat);
   rec.exp("condition", Val::throws()).exp("body", Val::throws()).exp("first", Val::throws()).exp("second", Val::throws()).exp("type", Val::throws());
   pool.push_back(s);
   if (w.flags.fill_at_creation || w.flags.complete_decls || op.a % 2) {
      auto& c = *World::pick(w.exprs, op.b);
      auto& b = *World::pick(w.exprs, op.c);
      s->control = &c;
      s->stmt = &b;
      rec.exp("condition", N(c)).exp("body", N(b)).exp("first", N(c)).exp("second", N(b)).exp("type", Val::type_of(b));
   }
   w.add_stmt(stmt_handle(s));
   w.add_expr(*s, false);
   w.note(factory);
}

void op_SWITCH(World& w, const Op& op) { controlled(w, op, w.L().make_switch(), "make_switch", Category_code::Switch, w.switches); }
void op_WHILE(World& w, const Op& op) { controlled(w, op, w.L().make_while(), "make_while", Category_code::While, w.whiles); }
void op_DO(World& w, const Op& op) { controlled(w, op, w.L().make_do(), "make_do", Category_code::Do, w.dos); }

void op_CTRL_FILL(World& w, const Op& op)
{
   if (w.flags.fill_at_creation) return;
   auto fill = [&](auto* s) {
      auto& c = w.expr_before(*s, op.c);
      auto& b = w.expr_before(*s, op.d);
      s->control = &c;
      s->stmt = &b;
      if (auto rec = w.rec_for(static_cast<const Node*>(s)))
         rec->exp("condition", N(c)).exp("body", N(b)).exp("first", N(c)).exp("second", N(b)).exp("type", Val::type_of(b));
   };
   switch (op.a % 3) {
   case 0: if (!w.switches.empty()) fill(World::pick(w.switches, op.b)); break;
   case 1: if (!w.whiles.empty()) fill(World::pick(w.whiles, op.b)); break;
   default: if (!w.dos.empty()) fill(World::pick(w.dos, op.b)); break;
   }
   w.note("controlled-fill");
}

void fill_for(World& w, impl::For* s, const Op& op, unsigned base)
{
   const unsigned k[] = {op.b, op.c, op.d, op.e};
   auto& i = w.expr_before(*s, k[base % 4]);
   auto& c = w.expr_before(*s, k[(base + 1) % 4]);
   auto& n = w.expr_before(*s, k[(base + 2) % 4]);
   const Stmt* b = w.stmt_before(*s, k[(base + 3) % 4]);
   if (b == nullptr) return;
   s->init = &i;
   s->cond = &c;
   s->inc = &n;
   s->stmt = b;
   if (auto rec = w.rec_for(static_cast<const Node*>(s)))
      rec->exp("initializer", N(i)).exp("condition", N(c)).exp("increment", N(n)).exp("body", N(*b)).exp("type", Val::type_of(*b));
}

void op_FOR(World& w, const Op& op)
{
   auto s = w.L().make_for();
   w.record_node("make_for", *s, Category_code::For)
      .exp("initializer", Val::throws())
      .exp("condition", Val::throws())
      .exp("increment", Val::throws())
      .exp("body", Val::throws())
      .exp("type", Val::throws());
   w.fors.push_back(s);
   if ((w.flags.fill_at_creation || w.flags.complete_decls || op.a % 2) && !w.stmts.empty()) fill_for(w, s, op, 0);
   w.add_stmt(stmt_handle(s));
   w.add_expr(*s, false);
   w.note("make_for");
}

void op_FOR_FILL(World& w, const Op& op)
{
   if (w.fors.empty() || w.stmts.empty() || w.flags.fill_at_creation) return;
   fill_for(w, World::pick(w.fors, op.a), op, 0);
   w.note("for-fill");
}

void fill_for_in(World& w, impl::For_in* s, const Op& op)
{
   if (w.vars.empty() || w.stmts.empty()) return;
   auto v = World::pick(w.vars, op.b);
   auto& q = w.expr_before(*s, op.c);
   const Stmt* b = w.stmt_before(*s, op.d);
   if (b == nullptr) return;
   s->var = v;
   s->seq = &q;
   s->stmt = b;
   if (auto rec = w.rec_for(static_cast<const Node*>(s))) rec->exp("variable", N(*v)).exp("sequence", N(q)).exp("body", N(*b)).exp("type", Val::type_of(*b));
}

void op_FOR_IN(World& w, const Op& op)
{
   auto s = w.L().make_for_in();
   w.record_node("make_for_in", *s, Category_code::For_in).exp("variable", Val::throws()).exp("sequence", Val::throws()).exp("body", Val::throws()).exp("type", Val::throws());
   w.for_ins.push_back(s);
   if (w.flags.fill_at_creation || w.flags.complete_decls || op.a % 2) fill_for_in(w, s, op);
   w.add_stmt(stmt_handle(s));
   w.add_expr(*s, false);
   w.note("make_for_in");
}

void op_FOR_IN_FILL(World& w, const Op& op)
{
   if (w.for_ins.empty() || w.flags.fill_at_creation) return;
   fill_for_in(w, World::pick(w.for_ins, op.a), op);
   w.note("for_in-fill");
}

void op_BREAK(World& w, const Op& op)
{
   auto s = w.L().make_break();
   Rec& rec = w.record_node("make_break", *s, Category_code::Break);
   rec.exp("from", Val::throws()).exp("type", N(w.L().void_type()));
   w.breaks.push_back(s);
   if ((w.flags.fill_at_creation || w.flags.complete_decls || op.a % 2) && !w.stmts.empty()) {
      auto t = World::pick(w.stmts, op.b).stmt;
      s->stmt = t;
      rec.exp("from", N(*t));
   }
   w.add_stmt(stmt_handle(s));
   w.add_expr(*s, true);
   w.note("make_break");
}

void op_CONTINUE(World& w, const Op& op)
{
   auto s = w.L().make_continue();
   Rec& rec = w.record_node("make_continue", *s, Category_code::Continue);
   rec.exp("iteration", Val::throws()).exp("type", N(w.L().void_type()));
   w.continues.push_back(s);
   if ((w.flags.fill_at_creation || w.flags.complete_decls || op.a % 2) && !w.stmts.empty()) {
      auto t = World::pick(w.stmts, op.b).stmt;
      s->stmt = t;
      rec.exp("iteration", N(*t));
   }
   w.add_stmt(stmt_handle(s));
   w.add_expr(*s, true);
   w.note("make_continue");
}

void op_JUMP_FILL(World& w, const Op& op)
{
   if (w.stmts.empty() || w.flags.fill_at_creation) return;
   auto t = World::pick(w.stmts, op.c).stmt;
   if (op.a % 2) {
      if (w.breaks.empty()) return;
      auto s = World::pick(w.breaks, op.b);
      s->stmt = t;
      if (auto rec = w.rec_for(static_cast<const Node*>(s))) rec->exp("from", N(*t));
   }
   else {
      if (w.continues.empty()) return;
      auto s = World::pick(w.continues, op.b);
      s->stmt = t;
      if (auto rec = w.rec_for(static_cast<const Node*>(s))) rec->exp("iteration", N(*t));
   }
   w.note("jump-fill");
}

void op_CTOR_BODY(World& w, const Op& op)
{
   if (w.blocks.empty()) return;
   const Expr_list& xl = *World::pick(w.xlists, op.a);
   const Block& b = *World::pick(w.blocks, op.b).blk;
   auto s = w.L().make_ctor_body(xl, b);
   w.record_node("make_ctor_body", *s, Category_code::Ctor_body).exp("inits", N(xl)).exp("block", N(b)).exp("first", N(xl)).exp("second", N(b)).exp("type", Val::throws());
   w.add_stmt(stmt_handle(s));
   w.add_expr(*s, false);
   w.note("make_ctor_body");
}

void op_ID_EXPR_FILL(World& w, const Op& op)
{
   if (w.id_exprs.empty() || w.flags.fill_at_creation) return;
   auto x = World::pick(w.id_exprs, op.a);
   auto& d = w.expr_before(*x, op.b);
   x->decls = &d;
   if (auto rec = w.rec_for(static_cast<const Node*>(x))) rec->exp("resolution", N(d));
   w.note("id_expr-fill");
}

void op_CLASSIC_IMPL(World& w, const Op& op)
{
   // fill: record a user-supplied meaning on a classic expression (only `New` is reachable with its concrete type here)
   if (w.news.empty() || w.flags.fill_at_creation) return;
   auto x = World::pick(w.news, op.a);
   auto& e = w.expr_before(*x, op.b);
   x->op_impl = &e;
   if (auto rec = w.rec_for(static_cast<const Node*>(x))) rec->exp("implementation", N(e));
   w.note("implementation-fill");
}

}   // namespace

void run_mapping_op(World& w, const Op& op) { op_MAPPING(w, op); }   // for composite ops defined elsewhere

void register_expr_ops(std::vector<OpInfo>& t)
{
#define R(NAME, GROUP) t.push_back({#NAME, &op_##NAME, GROUP})
   R(UNARY, G_EXPR); R(BINARY, G_EXPR); R(CAST, G_EXPR); R(CONV3, G_EXPR); R(QUALIFICATION, G_EXPR); R(ENCLOSURE, G_EXPR); R(CONSTRUCTION, G_EXPR);
   R(CALL, G_EXPR); R(NEW, G_EXPR); R(CONDITIONAL, G_EXPR); R(BINARY_FOLD, G_EXPR); R(REWRITE, G_EXPR); R(WHERE_ND, G_EXPR); R(WHERE, G_EXPR);
   R(WHERE_FILL, G_FILL); R(INSTANTIATION, G_EXPR); R(INST_FILL, G_FILL); R(ID_EXPR_N, G_EXPR); R(ID_EXPR_D, G_EXPR); R(LABEL_X, G_EXPR);
   R(XLIST, G_EXPR); R(XLIST_PUSH, G_MEMBER); R(MAPPING, G_EXPR); R(MAP_FILL, G_FILL); R(PLIST_ADD, G_MEMBER); R(LAMBDA, G_EXPR); R(LAMBDA_FILL, G_FILL);
   R(REQUIRES, G_EXPR); R(REQ_PUSH, G_MEMBER); R(ASM, G_EXPR); R(STATIC_ASSERT, G_EXPR);
   R(SUBST_E, G_SUBST); R(SUBST_G, G_SUBST); R(SUBST_BIND, G_SUBST); R(DEEP_BLOCK, G_HARNESS); R(MEMBER_FLOOD, G_HARNESS);
   R(BLOCK, G_STMT); R(ADD_STMT, G_MEMBER); R(NEW_HANDLER, G_MEMBER); R(EXPR_STMT, G_STMT); R(RETURN, G_STMT); R(GOTO, G_STMT); R(LABELED, G_STMT);
   R(IF, G_STMT); R(SWITCH, G_STMT); R(WHILE, G_STMT); R(DO, G_STMT); R(CTRL_FILL, G_FILL); R(FOR, G_STMT); R(FOR_FILL, G_FILL); R(FOR_IN, G_STMT);
   R(FOR_IN_FILL, G_FILL); R(BREAK, G_STMT); R(CONTINUE, G_STMT); R(JUMP_FILL, G_FILL); R(CTOR_BODY, G_STMT); R(ID_EXPR_FILL, G_FILL); R(CLASSIC_IMPL, G_FILL);
#undef R
}

}   // namespace eng
