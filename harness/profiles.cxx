// Profiles: weight tables over the one opcode set.  A profile only re-weights
// ops; every byte string still decodes to a valid script under any profile.
#include "engine.hpp"

namespace eng {

namespace {

struct Spec {
   const char* name;
   int group[G_COUNT];
   std::vector<std::pair<const char*, int>> ops;   // per-op overrides
};

//                         NAME ATOM TYPE UDT EXPR STMT DECL MEMB DIR FORM ATTR UNIT REGN FILL SUBST HARNESS
const Spec specs[] = {
   {"all",              {   4,   4,   5,  3,   8,   6,   8,   6,  3,   6,   3,   1,   2,   6,   2,   0},
    {{"REPEAT", 6}, {"AGAIN", 8}, {"MEMBER_FLOOD", 1}, {"TEMPLATE_FAMILY", 2}, {"LOCATE", 2}, {"JUNK", 1}, {"UNARY", 16}, {"BINARY", 16}, {"DECL", 14}, {"FORM", 14}, {"FORM_FILL", 8}, {"ATTR", 6}, {"TOKEN", 4}}},
   {"types",            {   1,   0,  20,  1,   0,   0,   0,   0,  0,   0,   0,   0,   0,   0,   0,   0},
    {{"REPEAT", 60}, {"AGAIN", 12}, {"BULK", 4}, {"JUNK", 1}, {"LITERAL", 6}, {"TRANSFER", 6}, {"LINKAGE_W", 4}, {"LINKAGE_S", 2}, {"CONVENTION", 4}, {"IDENT_W", 4},
     {"UNARY", 2}, {"BINARY", 2}, {"PRODUCT", 40}, {"SUM", 20}, {"FUNCTION", 40}, {"AS_TYPE", 40}, {"STRING", 2}, {"SUBREGION", 1}, {"AUTO", 2}, {"DECLTYPE", 2}}},
   {"names",            {  20,  14,   2,  1,   0,   0,   0,   0,  0,   0,   0,   0,   0,   0,   0,   0},
    {{"REPEAT", 70}, {"AGAIN", 12}, {"BULK", 3}, {"JUNK", 1}, {"XLIST", 4}, {"XLIST_PUSH", 3}, {"DECL", 12}, {"FORALL", 6}, {"PRODUCT", 3}, {"POINTER", 3}, {"TOKEN", 0},
     {"ANNOTATION", 0}, {"COMMENT", 0}, {"PHANTOM", 1}, {"ECLIPSIS", 1}, {"IDENT_W", 40}, {"LABEL", 20}, {"SYMBOL", 20}, {"AS_TYPE", 8}}},
   {"scopes",           {   2,   1,   2,  4,   1,   1,  60,   0,  0,   0,   0,   1,   3,   0,   0,   0},
    {{"ENUMERATOR", 8}, {"MEMBER_FLOOD", 1}, {"TEMPLATE_FAMILY", 3}, {"BASE", 6}, {"PLIST_ADD", 8}, {"MAPPING", 3}, {"LAMBDA", 2}, {"BLOCK", 3}, {"NEW_HANDLER", 3}, {"FUNCTION", 4}, {"FORALL", 4},
     {"PRODUCT", 3}, {"DECL_FILL", 6}, {"WHERE", 1}, {"ENUM", 4}, {"CLASS", 4}, {"IDENT_W", 1}, {"LITERAL", 1}}},
   {"regions",          {   1,   1,   1, 10,   1,   1,   4,   0,  0,   0,   0,   0,   0,   0,   0,   0},
    {{"SUBREGION", 12}, {"MEMBER_FLOOD", 1}, {"BLOCK", 12}, {"NEW_HANDLER", 10}, {"MAPPING", 8}, {"LAMBDA", 6}, {"REQUIRES", 5}, {"WHERE", 5}, {"FORM", 6}, {"PLIST_ADD", 10},
     {"ENUMERATOR", 8}, {"BASE", 8}, {"NEW_UNIT", 1}, {"NEW_MODULE", 1}, {"MODULE_UNIT", 2}, {"ADD_STMT", 2}, {"ENUM", 8}, {"CLASS", 12}, {"CLOSURE", 6}}},
   {"substs",           {   2,   2,   2,  0,   4,   0,   0,   0,  0,   0,   0,   0,   1,   0,  30,   0},
    {{"MAPPING", 8}, {"LAMBDA", 2}, {"REQUIRES", 2}, {"PLIST_ADD", 25}, {"SUBST_BIND", 60}, {"INSTANTIATION", 3}}},
   {"printable",        {   3,   3,   6,  4,  10,   8,  14,   6,  0,   0,   0,   0,   2,   5,   0,   0},
    {{"LOCATE", 16}, {"DEEP_BLOCK", 3}, {"JUNK", 4}, {"UNARY", 14}, {"BINARY", 20}, {"DECL", 150}, {"TOR", 1}, {"AUTO", 1}, {"DECLTYPE", 1}, {"GUIDE_NAME", 0}, {"DECL_FILL", 12}, {"ADD_STMT", 14}, {"TOKEN", 0}, {"ANNOTATION", 0}, {"COMMENT", 0},
     {"XLIST", 3}, {"XLIST_PUSH", 4}, {"CALL", 4}, {"ENUMERATOR", 6}, {"BASE", 3}, {"UDT_NAME", 8}, {"BLOCK", 8}, {"MAP_FILL", 6}, {"MAPPING", 5},
     {"PLIST_ADD", 8}, {"CAPTURE", 0}, {"SBIND_PUSH", 0}, {"USING_PUSH", 0}, {"PRAGMA_TOKEN", 0}, {"REQ_PUSH", 0}, {"STMT_ATTR", 0}}},
   {"printer",          {   3,   3,   5,  3,   9,   7,   8,   5,  2,   1,   0,   1,   2,   6,   1,   0},
    {{"PRINT", 22}, {"DEEP_BLOCK", 4}, {"LOCATE", 8}, {"UNARY", 16}, {"BINARY", 16}, {"DECL", 14}, {"LITERAL", 12}, {"ENCLOSURE", 8}, {"ADD_STMT", 8}, {"BLOCK", 6}, {"UDT_NAME", 5}}},
   // C05: everything, with growth of containers, of the unification tables and of the string arena between re-observations
   {"stability",        {   4,   4,   5,  3,   8,   6,   8,   9,  3,   6,   3,   1,   2,   6,   2,   0},
    {{"REPEAT", 6}, {"AGAIN", 14}, {"MEMBER_FLOOD", 1}, {"TEMPLATE_FAMILY", 2}, {"JUNK", 1}, {"UNARY", 14}, {"BINARY", 14}, {"DECL", 18}, {"FORM", 10}, {"FORM_FILL", 6}, {"ATTR", 4}, {"TOKEN", 3}, {"LONGSTR", 5}, {"BULK", 2},
     {"STRING", 8}, {"IDENT_W", 8}, {"ENUMERATOR", 10}, {"PLIST_ADD", 10}, {"XLIST_PUSH", 8}, {"ADD_STMT", 8}, {"NEW_HANDLER", 5}, {"BASE", 6}}},
   // C15: everything, with more of what the derived operations are defined on (blocks with and without handlers, grown sequences, value types)
   {"derived",          {   4,   6,   6,  4,   8,   6,   8,   8,  3,   4,   2,   1,   2,   6,   2,   0},
    {{"REPEAT", 4}, {"AGAIN", 5}, {"TEMPLATE_FAMILY", 5}, {"JUNK", 1}, {"UNARY", 12}, {"BINARY", 12}, {"DECL", 16}, {"FORM", 8}, {"FORM_FILL", 5}, {"BLOCK", 36}, {"NEW_HANDLER", 40}, {"ADD_STMT", 14},
     {"PRODUCT", 16}, {"SUM", 10}, {"XLIST", 8}, {"XLIST_PUSH", 20}, {"PLIST_ADD", 20}, {"MAPPING", 12}, {"ENUMERATOR", 10}, {"BASE", 6}, {"TRANSFER", 8},
     {"LINKAGE_W", 6}, {"LINKAGE_S", 4}, {"CONVENTION", 8}, {"LOGOGRAM", 8}, {"FUNCTION", 8}, {"DECL_FILL", 30}, {"MAP_FILL", 16}, {"FORALL", 8}}},
   {"lifetime",         {   4,   4,   6,  3,   8,   6,   8,   6,  3,   5,   3,   1,   2,   5,   2,   0},
    {{"PRINT", 3}, {"AGAIN", 4}, {"DEEP_BLOCK", 1}, {"BULK", 1}, {"REPEAT", 8}, {"JUNK", 1}, {"LOCATE", 1}, {"DECL", 14}, {"UNARY", 12}, {"BINARY", 12}, {"LONGSTR", 5}}},
};

std::vector<Profile> build()
{
   std::vector<Profile> out;
   const auto& tab = op_table();
   for (auto& s : specs) {
      Profile p;
      p.name = s.name;
      int acc = 0;
      for (auto& op : tab) {
         int wgt = s.group[op.group];
         for (auto& [n, v] : s.ops)
            if (std::strcmp(n, op.name) == 0) wgt = v;
         acc += wgt;
         p.cumulative.push_back(acc);
      }
      p.total = acc;
      out.push_back(std::move(p));
   }
   return out;
}

const std::vector<Profile>& all()
{
   static const std::vector<Profile> p = build();
   return p;
}

}   // namespace

const Profile& profile(const std::string& name)
{
   for (auto& p : all())
      if (p.name == name) return p;
   return all().front();
}

std::vector<std::string> profile_names()
{
   std::vector<std::string> v;
   for (auto& p : all()) v.push_back(p.name);
   return v;
}

}   // namespace eng
