// rapidcheck generator of construction scripts (kept apart so that only the
// property mains pay for including rapidcheck).
#pragma once
#include "engine.hpp"
#include "support.hpp"

namespace eng {
rc::Gen<Case> case_gen(const std::string& profile, int aux_bytes = 0);

// libFuzzer mode: every byte string is a script -- `aux_bytes` leading bytes, then one op per 8 bytes (code little-endian,
// reduced modulo the profile's weight total by the interpreter; operands modulo the pool sizes).
inline bool script_from_bytes(const std::uint8_t* d, std::size_t n, const std::string& profile_name, std::size_t aux_bytes, Case& c)
{
   c = Case{};
   c.profile = profile_name;
   if (n < aux_bytes + 8) return false;
   c.aux.assign(d, d + aux_bytes);
   const int total = profile(profile_name).total;
   for (std::size_t i = aux_bytes; i + 8 <= n; i += 8) {
      Op op;
      op.code = std::uint16_t((unsigned(d[i]) | unsigned(d[i + 1]) << 8) % unsigned(total));
      op.a = d[i + 2]; op.b = d[i + 3]; op.c = d[i + 4]; op.d = d[i + 5]; op.e = d[i + 6]; op.f = d[i + 7];
      c.ops.push_back(op);
   }
   return true;
}

// Account for one fixed (enumerated) script.  A signature it shows that is not excluded yet is minimised first
// (delta debugging over ops, in-process) so that the replay file is small; then the whole script is accounted.
template<class Run>
inline void account_fixed_script(const vf::Options& o, vf::Tally& tally, const Case& c, const std::string& what, Run run_case, int budget_per_signature = 250)
{
   vf::put_current(to_text(c));   // a crash inside the fixed script leaves it behind for the driver to minimise
   vf::Outcome out = run_case(c, o);
   for (auto& f : out.findings) {
      if (tally.excluded.count(f.signature) || o.get("survey", 0) != 0) continue;
      Case small = c;
      int budget = budget_per_signature;
      const double t_end = vf::now_s() + 40;   // minimisation effort only: the verdict does not depend on it
      for (std::size_t n = 2; small.ops.size() >= 2 && budget > 0 && vf::now_s() < t_end;) {
         const std::size_t chunk = std::max<std::size_t>(1, small.ops.size() / n);
         bool reduced = false;
         for (std::size_t i = 0; i < small.ops.size() && budget > 0; i += chunk) {
            Case cand = small;
            cand.ops.erase(cand.ops.begin() + long(i), cand.ops.begin() + long(std::min(small.ops.size(), i + chunk)));
            --budget;
            vf::Outcome r = run_case(cand, o);
            bool still = false;
            for (auto& g : r.findings) still = still || g.signature == f.signature;
            if (still) {
               small = cand;
               n = std::max<std::size_t>(n - 1, 2);
               reduced = true;
               break;
            }
         }
         if (!reduced) {
            if (chunk == 1) break;
            n = std::min(small.ops.size(), n * 2);
         }
      }
      vf::Outcome one;
      one.findings.push_back(f);
      vf::account(o, tally, to_text(small), "minimised from " + what, one);
      --tally.evaluations;
   }
   vf::account(o, tally, to_text(c), what, out);
}
}
