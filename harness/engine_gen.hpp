// rapidcheck generator of construction scripts (kept apart so that only the
// property mains pay for including rapidcheck).
#pragma once
#include "engine.hpp"
#include "support.hpp"

namespace eng {
rc::Gen<Case> case_gen(const std::string& profile, int aux_bytes = 0);
}
