// The observer: for a node of each category (and for each non-node interface
// object) call every accessor the interface documents, by its documented
// name, and render the answers as a flat list of fields.  Written from
// include/ipr/interface, ancillary, attribute, cxx-form only.
#include "engine.hpp"
#include "categories.hpp"

#include <typeinfo>

namespace eng {
using namespace ipr;

bool Val::operator==(const Val& o) const
{
   if (kind == Any || o.kind == Any) return true;
   if (kind != o.kind) return false;
   switch (kind) {
   case Ref: return ref == o.ref;
   case Num: return num == o.num;
   case Text: return text == o.text;
   case Foreign: return text == o.text;
   case Seq: return seq == o.seq;
   case TypeOf: return ref == o.ref;
   default: return true;
   }
}

std::string Val::show() const
{
   std::ostringstream os;
   switch (kind) {
   case Absent: os << "absent"; break;
   case Ref: os << "@" << ref; break;
   case Num: os << num; break;
   case Text: os << vf::jstr(text); break;
   case Throws: os << "throws-logic-error"; break;
   case Foreign: os << "foreign-exception(" << text << ")"; break;
   case TypeOf: os << "type-of(@" << ref << ")"; break;
   case Any: os << "any"; break;
   case Seq:
      os << "[";
      for (std::size_t i = 0; i < seq.size(); ++i) os << (i ? ", " : "") << seq[i].show();
      os << "]";
      break;
   }
   return os.str();
}

const Val* find(const Obs& o, const std::string& name)
{
   for (auto& f : o)
      if (f.name == name) return &f.val;
   return nullptr;
}

const char* category_name(Category_code c)
{
   static const char* const names[] = {
#define X(x) #x,
      VERIF_CATEGORIES(X)
#undef X
   };
   static_assert(sizeof names / sizeof names[0] == std::size_t(Category_code::last_code_cat) + 1, "category table out of date");
   // every name sits at the index of its own code
   constexpr Category_code codes[] = {
#define X(x) Category_code::x,
      VERIF_CATEGORIES(X)
#undef X
   };
   static_assert([&] {
      for (std::size_t i = 0; i < sizeof codes / sizeof codes[0]; ++i)
         if (std::size_t(codes[i]) != i) return false;
      return true;
   }(), "category order changed");
   const auto i = std::size_t(c);
   return i <= std::size_t(Category_code::last_code_cat) ? names[i] : "?";
}

int category_count() { return int(Category_code::last_code_cat); }

namespace {

struct Touch : Constant_visitor<No_op> {
};

// Use a returned node: read its category and run it through accept(), so that
// the sanitizers validate the object (vptr, liveness).
inline void touch(const Node& n)
{
   volatile auto c = n.category;
   (void)c;
   Touch t;
   n.accept(t);
}

struct Builder {
   Obs out;
   ObsStats* st = nullptr;
   bool proto = false;
   const char* cat = "?";
   const char* cur = "?";   // accessor being called

   // type-erased so that the try/catch skeleton is compiled once, not once per accessor
   template<class F>
   static Val thunk(void* p) { return (*static_cast<F*>(p))(); }
   template<class F>
   void fld(const char* name, F f) { fld_impl(name, &thunk<F>, &f); }

   void fld_impl(const char* name, Val (*call)(void*), void* closure)
   {
      if (st) ++st->accessors;
      cur = name;
      try {
         out.push_back({name, call(closure)});
      }
      catch (const std::logic_error&) {
         out.push_back({name, Val::throws()});
         if (st) ++st->refused;
      }
      catch (const std::exception& e) {
         Val v;
         v.kind = Val::Foreign;
         v.text = typeid(e).name();
         out.push_back({name, v});
         if (st) {
            ++st->foreign;
            st->foreign_where.push_back(std::string(cat) + "." + name + ": " + v.text);
         }
      }
      catch (...) {
         Val v;
         v.kind = Val::Foreign;
         v.text = "non-std-exception";
         out.push_back({name, v});
         if (st) {
            ++st->foreign;
            st->foreign_where.push_back(std::string(cat) + "." + name + ": non-std");
         }
      }
   }

   // --- conversions ---
   template<class T>
   Val val(const T& x)
   {
      if constexpr (std::is_base_of_v<Node, T>) {
         // a valid result is an object of the type the accessor promises (an unchecked down-cast inside the library
         // would hand back some other node under that static type)
         if (st && dynamic_cast<const T*>(static_cast<const Node*>(&x)) == nullptr)
            st->mistyped.push_back(std::string(cat) + "." + cur + ": the node returned is not of the accessor's static type " + typeid(T).name());
         touch(x);
         return Val::node(x);
      }
      else if constexpr (std::is_enum_v<T>)
         return Val::number(std::uint64_t(x));
      else if constexpr (std::is_integral_v<T>)
         return Val::number(std::uint64_t(x));
      else
         return Val::obj(&x);
   }
   Val val(bool b) { return Val::number(b ? 1 : 0); }
   Val val(util::word_view w) { return Val::bytes(std::string(reinterpret_cast<const char*>(w.data()), w.size())); }
   Val val(const Source_location& l)
   {
      return Val::list({Val::number(util::rep(l.file)), Val::number(util::rep(l.line)), Val::number(util::rep(l.column))});
   }
   Val val(const Unit_location& l)
   {
      return Val::list({Val::number(util::rep(l.unit)), Val::number(util::rep(l.line)), Val::number(util::rep(l.column))});
   }
   Val val(const Region::Location_span& s) { return Val::list({val(s.first), val(s.second)}); }
   Val val(const Using_declaration::Designator& d) { return Val::list({val(d.path()), Val::number(std::uint64_t(d.mode()))}); }
   template<class T>
   Val val(Optional<T> o)
   {
      if (!o.is_valid()) {
         // an empty Optional must refuse get()
         bool refused = false;
         try {
            (void)&o.get();
         }
         catch (const std::logic_error&) {
            refused = true;
         }
         if (!refused && st) st->seq_bad.push_back(std::string(cat) + ": empty Optional did not refuse get()");
         return Val::absent();
      }
      return val(o.get());
   }
   template<class T>
   Val val(const Sequence<T>& s)
   {
      std::vector<Val> xs;
      const std::size_t n = s.size();
      for (std::size_t i = 0; i < n; ++i) xs.push_back(val(*s.position(i)));
      if (proto) protocol(s, n, xs);
      return Val::list(std::move(xs));
   }
   Val val(const std::vector<Basic_specifier>& v)
   {
      std::vector<Val> xs;
      for (auto& b : v) xs.push_back(Val::obj(&b.logogram()));
      return Val::list(std::move(xs));
   }

   template<class T>
   void protocol(const Sequence<T>& s, std::size_t n, const std::vector<Val>& xs)
   {
      auto bad = [&](const std::string& what) {
         if (st) st->seq_bad.push_back(std::string(cat) + ": " + what);
      };
      if (s.empty() != (n == 0)) bad("empty() disagrees with size()");
      // iteration visits exactly size() elements and agrees with positional access
      std::size_t k = 0;
      auto it = s.begin();
      const auto e = s.end();
      for (; it != e && k <= n + 1; ++it, ++k) {
         if (k < n) {
            Val v = val(*it);
            if (!(v == xs[k])) bad("iteration element differs from position(i)");
         }
      }
      if (k != n) bad("iteration visited " + std::to_string(k) + " elements, size() is " + std::to_string(n));
      if (!(s.position(n) == e)) bad("position(size()) != end()");
      if (!(s.position(0) == s.begin())) bad("position(0) != begin()");
      // an iterator is a (sequence, position) pair: positions of another sequence are different iterators, also at equal indices
      {
         struct Other final : Sequence<T> {
            std::size_t n;
            explicit Other(std::size_t k) : n(k) { }
            std::size_t size() const final { return n; }
            const T& get(std::size_t) const final { throw std::domain_error("harness sequence"); }
         } other{n};
         if (s.begin() == other.begin() || !(s.begin() != other.begin())) bad("begin() of two different sequences compare equal");
         if (s.end() == other.end() || !(s.end() != other.end())) bad("end() of two different sequences of equal size compare equal");
         if (n > 1 && s.position(1) == other.position(1)) bad("position(1) of two different sequences compare equal");
      }
      // the iterator algebra, each operation against positional access: ++it, it++, --it, it--, ->, ==, !=
      {
         std::vector<std::size_t> ks;
         for (std::size_t i = 0; i <= n && i < 6; ++i) ks.push_back(i);
         for (std::size_t i = n > 6 ? n - 6 : 6; i <= n; ++i) ks.push_back(i);
         for (auto i : ks) {
            const auto at = s.position(i);
            if (i < n) {
               auto a = at;
               auto& ra = ++a;
               if (!(a == s.position(i + 1)) || &ra != &a) bad("++it does not move to position(i+1)");
               auto c = at;
               auto old = c++;
               if (!(old == at) || !(c == s.position(i + 1))) bad("it++ does not yield the old position and move to position(i+1)");
               bool same = false;
               try {
                  same = at.operator->() == &*at;
               }
               catch (const std::logic_error&) {
                  same = true;   // an element that refuses is refused by both routes (checked elsewhere)
               }
               if (!same) bad("operator-> differs from &*it");
            }
            if (i > 0) {
               auto a = at;
               auto& ra = --a;
               if (!(a == s.position(i - 1)) || &ra != &a) bad("--it does not move to position(i-1)");
               auto c = at;
               auto old = c--;
               if (!(old == at) || !(c == s.position(i - 1))) bad("it-- does not yield the old position and move to position(i-1)");
            }
            for (auto j : ks) {
               const bool eq = at == s.position(j), ne = at != s.position(j);
               if (eq != (i == j) || ne == eq) bad("== / != on iterators disagree with the positions compared");
            }
         }
         // backwards from end(): size() elements, the same ones in reverse order
         std::size_t back = 0;
         for (auto r = s.end(); r != s.begin() && back <= n; ++back) {
            auto was = r--;
            (void)was;
            if (back < n && n - 1 - back < xs.size()) {
               Val v;
               try {
                  v = val(*r);
               }
               catch (const std::logic_error&) {
                  v = xs[n - 1 - back];
               }
               if (!(v == xs[n - 1 - back])) bad("backward iteration element differs from position(i)");
            }
         }
         if (back != n) bad("backward iteration visited " + std::to_string(back) + " elements, size() is " + std::to_string(n));
      }
      // at or beyond size(): refused with a logic_error
      const std::size_t probes[] = {n, n + 1, n + 17, std::size_t(-1), std::size_t(-1) / 2};
      for (auto p : probes) {
         try {
            const T& x = *s.position(p);
            (void)&x;
            bad("index " + std::to_string(p) + " of " + std::to_string(n) + " was answered");
            if (st) ++st->oob_bad;
         }
         catch (const std::logic_error&) {
            if (st) ++st->oob_refused;
         }
         catch (const std::exception& ex) {
            bad(std::string("out-of-range index raised ") + typeid(ex).name());
            if (st) ++st->oob_bad;
         }
      }
   }
};

#define F(name, expr) b.fld(#name, [&] { return b.val(expr); })

struct Observer : Visitor {
   Builder& b;
   explicit Observer(Builder& bb) : b(bb) { }

   // ---- shared groups ----
   void expr_common(const Expr& n) { F(type, n.type()); }
   void classic_common(const Classic& n)
   {
      expr_common(n);
      F(implementation, n.implementation());
   }
   void type_common(const Type& n)
   {
      expr_common(n);
      F(name, n.name());
      F(transfer, n.transfer());
      F(linkage, n.linkage());
      b.fld("transfer.lang", [&] { return b.val(n.transfer().linkage().language().what().characters()); });
      b.fld("transfer.cc", [&] { return b.val(n.transfer().convention().name().what().characters()); });
   }
   void stmt_common(const Stmt& n)
   {
      expr_common(n);
      F(unit_location, n.unit_location());
      F(source_location, n.source_location());
      F(annotation, n.annotation());
      F(attributes, n.attributes());
   }
   void decl_common(const Decl& n)
   {
      stmt_common(n);
      F(specifiers, n.specifiers());
      F(decl_linkage, n.linkage());
      F(name, n.name());
      F(home_region, n.home_region());
      F(lexical_region, n.lexical_region());
      F(initializer, n.initializer());
      F(master, n.master());
      F(decl_set, n.decl_set());
   }
   void directive_common(const Directive& n)
   {
      expr_common(n);
      F(phases, n.phases());
   }
   template<class U>
   void udt_common(const U& n)
   {
      type_common(n);
      F(region, n.region());
      F(scope, n.scope());
      F(members, n.members());
   }
   template<class T>
   void unary_classic(const T& n)
   {
      b.cat = category_name(n.category);
      F(operand, n.operand());
      classic_common(n);
   }
   template<class T>
   void unary_plain(const T& n)
   {
      b.cat = category_name(n.category);
      F(operand, n.operand());
      expr_common(n);
   }
   template<class T>
   void binary_classic(const T& n)
   {
      b.cat = category_name(n.category);
      F(first, n.first());
      F(second, n.second());
      classic_common(n);
   }
   template<class T>
   void member_selection(const T& n)
   {
      binary_classic(n);
      F(base, n.base());
      F(member, n.member());
   }
   template<class T>
   void cast_expr(const T& n)
   {
      binary_classic(n);
      F(expr, n.expr());
   }

   // ---- abstract sinks: a node must never arrive here ----
   void visit(const Node&) override { b.cat = "Node"; b.out.push_back({"<abstract-sink>", Val::bytes("Node")}); }
   void visit(const Expr&) override { b.cat = "Expr"; b.out.push_back({"<abstract-sink>", Val::bytes("Expr")}); }
   void visit(const Name&) override { b.cat = "Name"; b.out.push_back({"<abstract-sink>", Val::bytes("Name")}); }
   void visit(const Type&) override { b.cat = "Type"; b.out.push_back({"<abstract-sink>", Val::bytes("Type")}); }
   void visit(const Directive&) override { b.cat = "Directive"; b.out.push_back({"<abstract-sink>", Val::bytes("Directive")}); }
   void visit(const Stmt&) override { b.cat = "Stmt"; b.out.push_back({"<abstract-sink>", Val::bytes("Stmt")}); }
   void visit(const Decl&) override { b.cat = "Decl"; b.out.push_back({"<abstract-sink>", Val::bytes("Decl")}); }
   void visit(const Classic&) override { b.cat = "Classic"; b.out.push_back({"<abstract-sink>", Val::bytes("Classic")}); }

   // ---- plain nodes ----
   void visit(const Annotation& n) override
   {
      b.cat = "Annotation";
      F(first, n.first());
      F(second, n.second());
      F(name, n.name());
      F(value, n.value());
   }
   void visit(const Region& n) override
   {
      b.cat = "Region";
      F(span, n.span());
      F(enclosing, n.enclosing());
      F(owner, n.owner());
      F(body, n.body());
      F(bindings, n.bindings());
      F(global, n.global());
   }
   void visit(const Comment& n) override
   {
      b.cat = "Comment";
      F(operand, n.operand());
      F(text, n.text());
   }
   void visit(const String& n) override
   {
      b.cat = "String";
      F(characters, n.characters());
      F(size, n.size());
      b.fld("begin_end", [&] { return Val::bytes(std::string(reinterpret_cast<const char*>(&*n.begin()), std::size_t(n.end() - n.begin()))); });
   }

   // ---- names ----
   void visit(const Identifier& n) override { b.cat = "Identifier"; F(operand, n.operand()); F(string, n.string()); }
   void visit(const Suffix& n) override { b.cat = "Suffix"; F(operand, n.operand()); F(name, n.name()); }
   void visit(const Operator& n) override { b.cat = "Operator"; F(operand, n.operand()); F(opname, n.opname()); }
   void visit(const Conversion& n) override { b.cat = "Conversion"; F(operand, n.operand()); F(target, n.target()); }
   void visit(const Template_id& n) override
   {
      b.cat = "Template_id";
      F(first, n.first());
      F(second, n.second());
      F(template_name, n.template_name());
      F(args, n.args());
   }
   void visit(const Type_id& n) override { b.cat = "Type_id"; F(operand, n.operand()); F(type_expr, n.type_expr()); }
   void visit(const Ctor_name& n) override { b.cat = "Ctor_name"; F(operand, n.operand()); F(object_type, n.object_type()); }
   void visit(const Dtor_name& n) override { b.cat = "Dtor_name"; F(operand, n.operand()); F(object_type, n.object_type()); }
   void visit(const Guide_name& n) override { b.cat = "Guide_name"; F(operand, n.operand()); F(mapping_decl, n.mapping_decl()); }

   // ---- types ----
   void visit(const Array& n) override
   {
      b.cat = "Array";
      F(first, n.first());
      F(second, n.second());
      F(element_type, n.element_type());
      F(bound, n.bound());
      type_common(n);
   }
   void visit(const Class& n) override
   {
      b.cat = "Class";
      udt_common(n);
      F(bases, n.bases());
   }
   void visit(const Closure& n) override { b.cat = "Closure"; udt_common(n); }
   void visit(const Decltype& n) override { b.cat = "Decltype"; F(operand, n.operand()); F(expr, n.expr()); type_common(n); }
   void visit(const Enum& n) override
   {
      b.cat = "Enum";
      udt_common(n);
      F(kind, n.kind());
      F(base, n.base());
   }
   void visit(const As_type& n) override { b.cat = "As_type"; F(operand, n.operand()); F(expr, n.expr()); type_common(n); }
   void visit(const Tor& n) override
   {
      b.cat = "Tor";
      F(first, n.first());
      F(second, n.second());
      F(source, n.source());
      F(throws, n.throws());
      type_common(n);
   }
   void visit(const Function& n) override
   {
      b.cat = "Function";
      F(first, n.first());
      F(second, n.second());
      F(third, n.third());
      F(source, n.source());
      F(target, n.target());
      F(throws, n.throws());
      type_common(n);
   }
   void visit(const Namespace& n) override { b.cat = "Namespace"; udt_common(n); }
   void visit(const Pointer& n) override { b.cat = "Pointer"; F(operand, n.operand()); F(points_to, n.points_to()); type_common(n); }
   void visit(const Ptr_to_member& n) override
   {
      b.cat = "Ptr_to_member";
      F(first, n.first());
      F(second, n.second());
      F(containing_type, n.containing_type());
      F(member_type, n.member_type());
      type_common(n);
   }
   void visit(const Product& n) override
   {
      b.cat = "Product";
      F(operand, n.operand());
      F(elements, n.elements());
      F(size, n.size());
      type_common(n);
   }
   void visit(const Qualified& n) override
   {
      b.cat = "Qualified";
      F(first, n.first());
      F(second, n.second());
      F(qualifiers, n.qualifiers());
      F(main_variant, n.main_variant());
      type_common(n);
   }
   void visit(const Reference& n) override { b.cat = "Reference"; F(operand, n.operand()); F(refers_to, n.refers_to()); type_common(n); }
   void visit(const Rvalue_reference& n) override { b.cat = "Rvalue_reference"; F(operand, n.operand()); F(refers_to, n.refers_to()); type_common(n); }
   void visit(const Sum& n) override
   {
      b.cat = "Sum";
      F(operand, n.operand());
      F(elements, n.elements());
      F(size, n.size());
      type_common(n);
   }
   void visit(const Forall& n) override
   {
      b.cat = "Forall";
      F(first, n.first());
      F(second, n.second());
      F(source, n.source());
      F(target, n.target());
      type_common(n);
   }
   void visit(const Union& n) override { b.cat = "Union"; udt_common(n); }
   void visit(const Auto& n) override { b.cat = "Auto"; type_common(n); }

   // ---- assorted expressions ----
   void visit(const Expr_list& n) override
   {
      b.cat = "Expr_list";
      F(operand, n.operand());
      F(elements, n.elements());
      F(size, n.size());
      expr_common(n);
   }
   void visit(const Overload& n) override { b.cat = "Overload"; expr_common(n); }
   void visit(const Scope& n) override
   {
      b.cat = "Scope";
      F(elements, n.elements());
      F(size, n.size());
      expr_common(n);
   }
   void visit(const Phantom& n) override { b.cat = "Phantom"; expr_common(n); }
   void visit(const Eclipsis& n) override { b.cat = "Eclipsis"; expr_common(n); }
   void visit(const Lambda& n) override
   {
      b.cat = "Lambda";
      F(parameters, n.parameters());
      F(result, n.result());
      F(type, n.type());
      F(target, n.target());
      F(requirement, n.requirement());
      F(attributes, n.attributes());
      F(eh_specification, n.eh_specification());
      F(specifiers, n.specifiers());
      F(captures, n.captures());
   }
   void visit(const Requires& n) override
   {
      b.cat = "Requires";
      F(parameters, n.parameters());
      F(body, n.body());
      expr_common(n);
   }
   void visit(const Symbol& n) override { b.cat = "Symbol"; F(operand, n.operand()); F(name, n.name()); expr_common(n); }
   void visit(const Address& n) override { unary_classic(n); }
   void visit(const Array_delete& n) override { unary_classic(n); F(storage, n.storage()); }
   void visit(const Asm& n) override { unary_plain(n); F(text, n.text()); }
   void visit(const Complement& n) override { unary_classic(n); }
   void visit(const Delete& n) override { unary_classic(n); F(storage, n.storage()); }
   void visit(const Demotion& n) override { unary_plain(n); }
   void visit(const Deref& n) override { unary_classic(n); }
   void visit(const Enclosure& n) override { unary_plain(n); F(delimiters, n.delimiters()); F(expr, n.expr()); }
   void visit(const Alignof& n) override { unary_plain(n); }
   void visit(const Sizeof& n) override { unary_plain(n); }
   void visit(const Args_cardinality& n) override { unary_plain(n); }
   void visit(const Restriction& n) override { unary_plain(n); }
   void visit(const Typeid& n) override { unary_plain(n); }
   void visit(const Id_expr& n) override { unary_plain(n); F(resolution, n.resolution()); F(name, n.name()); }
   void visit(const Label& n) override { unary_plain(n); F(name, n.name()); }
   void visit(const Not& n) override { unary_classic(n); }
   void visit(const Materialization& n) override { unary_plain(n); }
   void visit(const Post_decrement& n) override { unary_classic(n); }
   void visit(const Post_increment& n) override { unary_classic(n); }
   void visit(const Pre_decrement& n) override { unary_classic(n); }
   void visit(const Pre_increment& n) override { unary_classic(n); }
   void visit(const Promotion& n) override { unary_plain(n); }
   void visit(const Read& n) override { unary_plain(n); }
   void visit(const Throw& n) override { unary_classic(n); F(exception, n.exception()); }
   void visit(const Unary_minus& n) override { unary_classic(n); }
   void visit(const Unary_plus& n) override { unary_classic(n); }
   void visit(const Expansion& n) override { unary_classic(n); }
   void visit(const Noexcept& n) override { unary_plain(n); }
   void visit(const Construction& n) override { unary_classic(n); F(arguments, n.arguments()); }

   void visit(const Rewrite& n) override
   {
      b.cat = "Rewrite";
      F(first, n.first());
      F(second, n.second());
      F(source, n.source());
      F(target, n.target());
      expr_common(n);
   }
   void visit(const Scope_ref& n) override { binary_classic(n); F(scope, n.scope()); F(member, n.member()); }
   void visit(const And& n) override { binary_classic(n); }
   void visit(const Array_ref& n) override { member_selection(n); }
   void visit(const Arrow& n) override { member_selection(n); }
   void visit(const Arrow_star& n) override { member_selection(n); }
   void visit(const Assign& n) override { binary_classic(n); }
   void visit(const Bitand& n) override { binary_classic(n); }
   void visit(const Bitand_assign& n) override { binary_classic(n); }
   void visit(const Bitor& n) override { binary_classic(n); }
   void visit(const Bitor_assign& n) override { binary_classic(n); }
   void visit(const Bitxor& n) override { binary_classic(n); }
   void visit(const Bitxor_assign& n) override { binary_classic(n); }
   void visit(const Cast& n) override { cast_expr(n); }
   void visit(const Call& n) override { binary_classic(n); F(function, n.function()); F(args, n.args()); }
   void visit(const Coercion& n) override { binary_classic(n); F(expr, n.expr()); F(target, n.target()); }
   void visit(const Comma& n) override { binary_classic(n); }
   void visit(const Const_cast& n) override { cast_expr(n); }
   void visit(const Div& n) override { binary_classic(n); }
   void visit(const Div_assign& n) override { binary_classic(n); }
   void visit(const Dot& n) override { member_selection(n); }
   void visit(const Dot_star& n) override { member_selection(n); }
   void visit(const Dynamic_cast& n) override { cast_expr(n); }
   void visit(const Equal& n) override { binary_classic(n); }
   void visit(const Greater& n) override { binary_classic(n); }
   void visit(const Greater_equal& n) override { binary_classic(n); }
   void visit(const Less& n) override { binary_classic(n); }
   void visit(const Less_equal& n) override { binary_classic(n); }
   void visit(const Literal& n) override { binary_classic(n); F(string, n.string()); }
   void visit(const Lshift& n) override { binary_classic(n); }
   void visit(const Lshift_assign& n) override { binary_classic(n); }
   void visit(const Member_init& n) override
   {
      b.cat = "Member_init";
      F(first, n.first());
      F(second, n.second());
      F(member, n.member());
      F(initializer, n.initializer());
      expr_common(n);
   }
   void visit(const Minus& n) override { binary_classic(n); }
   void visit(const Minus_assign& n) override { binary_classic(n); }
   void visit(const Modulo& n) override { binary_classic(n); }
   void visit(const Modulo_assign& n) override { binary_classic(n); }
   void visit(const Mul& n) override { binary_classic(n); }
   void visit(const Mul_assign& n) override { binary_classic(n); }
   void visit(const Narrow& n) override
   {
      b.cat = "Narrow";
      F(first, n.first());
      F(second, n.second());
      F(expr, n.expr());
      F(derived, n.derived());
      expr_common(n);
   }
   void visit(const Not_equal& n) override { binary_classic(n); }
   void visit(const Or& n) override { binary_classic(n); }
   void visit(const Plus& n) override { binary_classic(n); }
   void visit(const Plus_assign& n) override { binary_classic(n); }
   void visit(const Pretend& n) override
   {
      b.cat = "Pretend";
      F(first, n.first());
      F(second, n.second());
      F(expr, n.expr());
      F(target, n.target());
      expr_common(n);
   }
   void visit(const Qualification& n) override
   {
      b.cat = "Qualification";
      F(first, n.first());
      F(second, n.second());
      F(expr, n.expr());
      F(qualifiers, n.qualifiers());
      expr_common(n);
   }
   void visit(const Reinterpret_cast& n) override { cast_expr(n); }
   void visit(const Rshift& n) override { binary_classic(n); }
   void visit(const Rshift_assign& n) override { binary_classic(n); }
   void visit(const Static_cast& n) override { cast_expr(n); }
   void visit(const Widen& n) override
   {
      b.cat = "Widen";
      F(first, n.first());
      F(second, n.second());
      F(expr, n.expr());
      F(base, n.base());
      expr_common(n);
   }
   void visit(const Binary_fold& n) override { binary_classic(n); F(operation, n.operation()); }
   void visit(const Where& n) override
   {
      b.cat = "Where";
      F(first, n.first());
      F(second, n.second());
      F(main, n.main());
      F(attendant, n.attendant());
      expr_common(n);
   }
   void visit(const Static_assert& n) override
   {
      b.cat = "Static_assert";
      F(first, n.first());
      F(second, n.second());
      F(condition, n.condition());
      F(message, n.message());
      expr_common(n);
   }
   void visit(const Instantiation& n) override
   {
      b.cat = "Instantiation";
      F(pattern, n.pattern());
      F(substitution, n.substitution());
      F(instance, n.instance());
      expr_common(n);
   }
   void visit(const Conditional& n) override
   {
      b.cat = "Conditional";
      F(first, n.first());
      F(second, n.second());
      F(third, n.third());
      F(condition, n.condition());
      F(then_expr, n.then_expr());
      F(else_expr, n.else_expr());
      classic_common(n);
   }
   void visit(const New& n) override
   {
      binary_classic(n);
      F(global_requested, n.global_requested());
      F(placement, n.placement());
      F(initializer, n.initializer());
   }
   void visit(const Mapping& n) override
   {
      b.cat = "Mapping";
      F(parameters, n.parameters());
      F(result, n.result());
      expr_common(n);
   }
   void visit(const Parameter_list& n) override
   {
      b.cat = "Parameter_list";
      F(region, n.region());
      F(level, n.level());
      F(type, n.type());
      F(elements, n.elements());
      F(size, n.size());
   }

   // ---- directives ----
   void visit(const Specifiers_spread& n) override
   {
      b.cat = "Specifiers_spread";
      directive_common(n);
      F(specifiers, n.specifiers());
      F(targets, n.targets());
   }
   void visit(const Structured_binding& n) override
   {
      b.cat = "Structured_binding";
      directive_common(n);
      F(specifiers, n.specifiers());
      F(mode, n.mode());
      F(names, n.names());
      F(initializer, n.initializer());
      F(bindings, n.bindings());
   }
   void visit(const Using_declaration& n) override
   {
      b.cat = "Using_declaration";
      directive_common(n);
      F(designators, n.designators());
   }
   void visit(const Using_directive& n) override
   {
      b.cat = "Using_directive";
      directive_common(n);
      F(nominated_scope, n.nominated_scope());
   }
   void visit(const Phased_evaluation& n) override
   {
      b.cat = "Phased_evaluation";
      directive_common(n);
      F(expression, n.expression());
   }
   void visit(const Pragma& n) override
   {
      b.cat = "Pragma";
      directive_common(n);
      F(operand, n.operand());
      F(incantation, n.incantation());
   }

   // ---- statements ----
   void visit(const Labeled_stmt& n) override
   {
      b.cat = "Labeled_stmt";
      F(first, n.first());
      F(second, n.second());
      F(label, n.label());
      F(stmt, n.stmt());
      stmt_common(n);
   }
   void visit(const Block& n) override
   {
      b.cat = "Block";
      F(region, n.region());
      F(body, n.body());
      F(handlers, n.handlers());
      F(try_block, n.try_block());
      stmt_common(n);
   }
   void visit(const Ctor_body& n) override
   {
      b.cat = "Ctor_body";
      F(first, n.first());
      F(second, n.second());
      F(inits, n.inits());
      F(block, n.block());
      stmt_common(n);
   }
   void visit(const Expr_stmt& n) override
   {
      b.cat = "Expr_stmt";
      F(operand, n.operand());
      F(expr, n.expr());
      stmt_common(n);
   }
   void visit(const If& n) override
   {
      b.cat = "If";
      F(first, n.first());
      F(second, n.second());
      F(third, n.third());
      F(condition, n.condition());
      F(consequence, n.consequence());
      F(alternative, n.alternative());
      stmt_common(n);
   }
   template<class T>
   void controlled(const T& n, const char* cat)
   {
      b.cat = cat;
      F(first, n.first());
      F(second, n.second());
      F(condition, n.condition());
      F(body, n.body());
      stmt_common(n);
   }
   void visit(const Switch& n) override { controlled(n, "Switch"); }
   void visit(const While& n) override { controlled(n, "While"); }
   void visit(const Do& n) override { controlled(n, "Do"); }
   void visit(const For& n) override
   {
      b.cat = "For";
      F(initializer, n.initializer());
      F(condition, n.condition());
      F(increment, n.increment());
      F(body, n.body());
      stmt_common(n);
   }
   void visit(const For_in& n) override
   {
      b.cat = "For_in";
      F(variable, n.variable());
      F(sequence, n.sequence());
      F(body, n.body());
      stmt_common(n);
   }
   void visit(const Break& n) override { b.cat = "Break"; F(from, n.from()); stmt_common(n); }
   void visit(const Continue& n) override { b.cat = "Continue"; F(iteration, n.iteration()); stmt_common(n); }
   void visit(const Goto& n) override { b.cat = "Goto"; F(operand, n.operand()); F(target, n.target()); stmt_common(n); }
   void visit(const Return& n) override { b.cat = "Return"; F(operand, n.operand()); F(value, n.value()); stmt_common(n); }
   void visit(const Handler& n) override
   {
      b.cat = "Handler";
      F(exception, n.exception());
      F(body, n.body());
      stmt_common(n);
   }

   // ---- declarations ----
   void visit(const Alias& n) override { b.cat = "Alias"; decl_common(n); }
   void visit(const Base_type& n) override { b.cat = "Base_type"; decl_common(n); F(position, n.position()); }
   void visit(const Bitfield& n) override { b.cat = "Bitfield"; decl_common(n); F(precision, n.precision()); }
   void visit(const Enumerator& n) override { b.cat = "Enumerator"; decl_common(n); F(position, n.position()); }
   void visit(const Field& n) override { b.cat = "Field"; decl_common(n); }
   void visit(const Fundecl& n) override
   {
      b.cat = "Fundecl";
      decl_common(n);
      F(mapping, n.mapping());
      F(parameters, n.parameters());
      F(definition, n.definition());
   }
   void visit(const Template& n) override
   {
      b.cat = "Template";
      decl_common(n);
      F(primary_template, n.primary_template());
      F(specializations, n.specializations());
      F(mapping, n.mapping());
      F(parameters, n.parameters());
      F(result, n.result());
      F(definition, n.definition());
   }
   void visit(const Parameter& n) override
   {
      b.cat = "Parameter";
      decl_common(n);
      F(level, n.level());
      F(position, n.position());
      F(default_value, n.default_value());
   }
   void visit(const Typedecl& n) override { b.cat = "Typedecl"; decl_common(n); F(definition, n.definition()); }
   void visit(const Var& n) override { b.cat = "Var"; decl_common(n); F(definition, n.definition()); }
   void visit(const EH_parameter& n) override { b.cat = "EH_parameter"; decl_common(n); }
};

// ---- non-node interface objects --------------------------------------------
struct AttrObs : Attribute::Visitor {
   Builder& b;
   explicit AttrObs(Builder& bb) : b(bb) { }
   void visit(const BasicAttribute& n) override { b.cat = "BasicAttribute"; F(operand, n.operand()); F(token, n.token()); }
   void visit(const ScopedAttribute& n) override { b.cat = "ScopedAttribute"; F(first, n.first()); F(second, n.second()); F(scope, n.scope()); F(member, n.member()); }
   void visit(const LabeledAttribute& n) override { b.cat = "LabeledAttribute"; F(first, n.first()); F(second, n.second()); F(label, n.label()); F(attribute, n.attribute()); }
   void visit(const CalledAttribute& n) override { b.cat = "CalledAttribute"; F(first, n.first()); F(second, n.second()); F(function, n.function()); F(arguments, n.arguments()); }
   void visit(const ExpandedAttribute& n) override { b.cat = "ExpandedAttribute"; F(first, n.first()); F(second, n.second()); F(expander, n.expander()); F(operand, n.operand()); }
   void visit(const FactoredAttribute& n) override { b.cat = "FactoredAttribute"; F(first, n.first()); F(second, n.second()); F(factor, n.factor()); F(terms, n.terms()); }
   void visit(const ElaboratedAttribute& n) override { b.cat = "ElaboratedAttribute"; F(operand, n.operand()); F(elaboration, n.elaboration()); }
};

struct CapObs : Capture_specification::Visitor {
   Builder& b;
   explicit CapObs(Builder& bb) : b(bb) { }
   void visit(const Capture_specification::Default& n) override { b.cat = "Capture_specification::Default"; F(mode, n.mode()); }
   void visit(const Capture_specification::Implicit_object& n) override { b.cat = "Capture_specification::Implicit_object"; F(how, n.how()); }
   void visit(const Capture_specification::Enclosing_local& n) override
   {
      b.cat = "Capture_specification::Enclosing_local";
      F(name, n.name());
      F(mode, n.mode());
      F(declaration, n.declaration());
   }
   void visit(const Capture_specification::Binding& n) override
   {
      b.cat = "Capture_specification::Binding";
      F(name, n.name());
      F(mode, n.mode());
      F(initializer, n.initializer());
   }
   void visit(const Capture_specification::Expansion& n) override { b.cat = "Capture_specification::Expansion"; F(what, n.what()); }
};

namespace cf = ipr::cxx_form;

struct ConstraintObs : cf::Constraint_visitor {
   Builder& b;
   explicit ConstraintObs(Builder& bb) : b(bb) { }
   void visit(const cf::Constraint::Monadic& n) override { b.cat = "Constraint::Monadic"; F(scope, n.scope()); F(concept_name, n.concept_name()); }
   void visit(const cf::Constraint::Polyadic& n) override
   {
      b.cat = "Constraint::Polyadic";
      F(scope, n.scope());
      F(concept_name, n.concept_name());
      F(trailing_arguments, n.trailing_arguments());
   }
};

struct RequirementObs : cf::Requirement_visitor {
   Builder& b;
   explicit RequirementObs(Builder& bb) : b(bb) { }
   void visit(const cf::Requirement::Simple& n) override { b.cat = "Requirement::Simple"; F(expr, n.expr()); }
   void visit(const cf::Requirement::Type& n) override { b.cat = "Requirement::Type"; F(scope, n.scope()); F(type_name, n.type_name()); }
   void visit(const cf::Requirement::Compound& n) override
   {
      b.cat = "Requirement::Compound";
      F(expr, n.expr());
      F(constraint, n.constraint());
      F(nothrow, n.nothrow());
   }
   void visit(const cf::Requirement::Nested& n) override { b.cat = "Requirement::Nested"; F(condition, n.condition()); }
};

struct IndirectorObs : cf::Indirector_visitor {
   Builder& b;
   explicit IndirectorObs(Builder& bb) : b(bb) { }
   void visit(const cf::Indirector::Pointer& n) override { b.cat = "Indirector::Pointer"; F(attributes, n.attributes()); F(qualifiers, n.qualifiers()); }
   void visit(const cf::Indirector::Reference& n) override { b.cat = "Indirector::Reference"; F(attributes, n.attributes()); F(flavor, n.flavor()); }
   void visit(const cf::Indirector::Member& n) override
   {
      b.cat = "Indirector::Member";
      F(attributes, n.attributes());
      F(scope, n.scope());
      F(qualifiers, n.qualifiers());
   }
};

struct MorphismObs : cf::Morphism_visitor {
   Builder& b;
   explicit MorphismObs(Builder& bb) : b(bb) { }
   void visit(const cf::Morphism::Function& n) override
   {
      b.cat = "Morphism::Function";
      F(attributes, n.attributes());
      F(parameters, n.parameters());
      F(qualifiers, n.qualifiers());
      F(binding_mode, n.binding_mode());
      F(throws, n.throws());
   }
   void visit(const cf::Morphism::Array& n) override { b.cat = "Morphism::Array"; F(attributes, n.attributes()); F(bound, n.bound()); }
};

struct SpeciesObs : cf::Species_visitor {
   Builder& b;
   explicit SpeciesObs(Builder& bb) : b(bb) { }
   void visit(const cf::Species_declarator::Unqualified_id& n) override
   {
      b.cat = "Species::Unqualified_id";
      F(suffix, n.suffix());
      F(attributes, n.attributes());
      F(name, n.name());
   }
   void visit(const cf::Species_declarator::Pack& n) override
   {
      b.cat = "Species::Pack";
      F(suffix, n.suffix());
      F(attributes, n.attributes());
      F(name, n.name());
   }
   void visit(const cf::Species_declarator::Qualified_id& n) override
   {
      b.cat = "Species::Qualified_id";
      F(suffix, n.suffix());
      F(attributes, n.attributes());
      F(scope, n.scope());
      F(member, n.member());
   }
   void visit(const cf::Species_declarator::Parenthesized& n) override
   {
      b.cat = "Species::Parenthesized";
      F(suffix, n.suffix());
      F(term, n.term());
   }
};

struct DeclaratorObs : cf::Declarator_visitor {
   Builder& b;
   explicit DeclaratorObs(Builder& bb) : b(bb) { }
   void visit(const cf::Declarator::Term& n) override { b.cat = "Declarator::Term"; F(species, n.species()); F(indirectors, n.indirectors()); }
   void visit(const cf::Declarator::Targeted& n) override { b.cat = "Declarator::Targeted"; F(species, n.species()); F(target, n.target()); }
};

struct ProvisionObs : cf::Provision_visitor {
   Builder& b;
   explicit ProvisionObs(Builder& bb) : b(bb) { }
   void visit(const cf::Classic_provision& n) override { b.cat = "Classic_provision"; F(initializer, n.initializer()); }
   void visit(const cf::Parenthesized_provision& n) override { b.cat = "Parenthesized_provision"; F(initializer, n.initializer()); }
   void visit(const cf::Braced_provision& n) override { b.cat = "Braced_provision"; F(elements, n.elements()); }
   void visit(const cf::Designated_list_provision& n) override { b.cat = "Designated_list_provision"; F(elements, n.elements()); }
};

struct ElemInitObs : cf::Initializer_visitor {
   Builder& b;
   explicit ElemInitObs(Builder& bb) : b(bb) { }
   void visit(const cf::Expr_initializer& n) override { b.cat = "Expr_initializer"; F(expression, n.expression()); }
   void visit(const cf::Braced_provision& n) override { b.cat = "Braced_provision"; F(elements, n.elements()); }
   void visit(const cf::Designated_list_provision& n) override { b.cat = "Designated_list_provision"; F(elements, n.elements()); }
};

struct DesignatorObs : cf::Designator_visitor {
   Builder& b;
   explicit DesignatorObs(Builder& bb) : b(bb) { }
   void visit(const cf::Field_designator& n) override { b.cat = "Field_designator"; F(name, n.name()); }
   void visit(const cf::Slot_designator& n) override { b.cat = "Slot_designator"; F(index, n.index()); }
};

struct UnitObs : Translation_unit::Visitor {
   Builder& b;
   explicit UnitObs(Builder& bb) : b(bb) { }
   void common(const Translation_unit& n)
   {
      F(global_namespace, n.global_namespace());
      F(imported_modules, n.imported_modules());
   }
   void visit(const Translation_unit& n) override { b.cat = "Translation_unit"; common(n); }
   void visit(const Module_unit& n) override
   {
      b.cat = "Module_unit";
      common(n);
      F(parent_module, n.parent_module());
      F(purview, n.purview());
   }
   void visit(const Interface_unit& n) override
   {
      b.cat = "Interface_unit";
      common(n);
      F(parent_module, n.parent_module());
      F(purview, n.purview());
      F(exported_modules, n.exported_modules());
      F(exported_declarations, n.exported_declarations());
   }
};

}   // namespace

Obs observe(const Entity& e, ObsStats* stats, bool seq_protocol)
{
   Builder b;
   b.st = stats;
   b.proto = seq_protocol;
   switch (e.aux) {
   case Aux::None: {
      const Node& n = *static_cast<const Node*>(e.ptr);
      b.out.push_back({"category", Val::number(std::uint64_t(n.category))});
      Observer o{b};
      n.accept(o);
      break;
   }
   case Aux::Linkage: {
      auto& n = *static_cast<const Linkage*>(e.ptr);
      b.cat = "Linkage";
      F(language, n.language());
      b.fld("spelling", [&] { return b.val(n.language().what().characters()); });
      break;
   }
   case Aux::Convention: {
      auto& n = *static_cast<const Calling_convention*>(e.ptr);
      b.cat = "Calling_convention";
      F(name, n.name());
      b.fld("spelling", [&] { return b.val(n.name().what().characters()); });
      break;
   }
   case Aux::Transfer: {
      auto& n = *static_cast<const Transfer*>(e.ptr);
      b.cat = "Transfer";
      F(first, n.first());
      F(second, n.second());
      F(linkage, n.linkage());
      F(convention, n.convention());
      b.fld("lang", [&] { return b.val(n.linkage().language().what().characters()); });
      b.fld("cc", [&] { return b.val(n.convention().name().what().characters()); });
      break;
   }
   case Aux::Logogram: {
      auto& n = *static_cast<const Logogram*>(e.ptr);
      b.cat = "Logogram";
      F(operand, n.operand());
      F(what, n.what());
      b.fld("spelling", [&] { return b.val(n.what().characters()); });
      break;
   }
   case Aux::Token: {
      auto& n = *static_cast<const Token*>(e.ptr);
      b.cat = "Token";
      F(lexeme, n.lexeme());
      F(value, n.value());
      F(category, n.category());
      b.fld("spelling", [&] { return b.val(n.lexeme().spelling()); });
      b.fld("locus", [&] { return b.val(n.lexeme().locus()); });
      break;
   }
   case Aux::Attribute: {
      AttrObs o{b};
      static_cast<const Attribute*>(e.ptr)->accept(o);
      break;
   }
   case Aux::Capture: {
      auto& n = *static_cast<const Capture*>(e.ptr);
      b.cat = "Capture";
      F(mode, n.mode());
      F(entity, n.entity());
      break;
   }
   case Aux::CaptureSpec: {
      CapObs o{b};
      static_cast<const Capture_specification*>(e.ptr)->accept(o);
      break;
   }
   case Aux::Constraint: {
      ConstraintObs o{b};
      static_cast<const cf::Constraint*>(e.ptr)->accept(o);
      break;
   }
   case Aux::Requirement: {
      RequirementObs o{b};
      static_cast<const cf::Requirement*>(e.ptr)->accept(o);
      break;
   }
   case Aux::Indirector: {
      IndirectorObs o{b};
      static_cast<const cf::Indirector*>(e.ptr)->accept(o);
      break;
   }
   case Aux::Morphism: {
      MorphismObs o{b};
      static_cast<const cf::Morphism*>(e.ptr)->accept(o);
      break;
   }
   case Aux::Species: {
      SpeciesObs o{b};
      static_cast<const cf::Species_declarator*>(e.ptr)->accept(o);
      break;
   }
   case Aux::Declarator: {
      DeclaratorObs o{b};
      static_cast<const cf::Declarator*>(e.ptr)->accept(o);
      break;
   }
   case Aux::Provision: {
      ProvisionObs o{b};
      static_cast<const cf::Initialization_provision*>(e.ptr)->accept(o);
      break;
   }
   case Aux::ElemInit: {
      ElemInitObs o{b};
      static_cast<const cf::Elemental_initializer*>(e.ptr)->accept(o);
      break;
   }
   case Aux::Designator: {
      DesignatorObs o{b};
      static_cast<const cf::Subobject_designator*>(e.ptr)->accept(o);
      break;
   }
   case Aux::Earmarked: {
      auto& n = *static_cast<const cf::Earmarked_initializer*>(e.ptr);
      b.cat = "Earmarked_initializer";
      F(subobject, n.subobject());
      F(initializer, n.initializer());
      break;
   }
   case Aux::Substitution: break;   // queried with parameters by the C16 oracle
   case Aux::Unit: {
      UnitObs o{b};
      static_cast<const Translation_unit*>(e.ptr)->accept(o);
      break;
   }
   case Aux::Module: {
      auto& n = *static_cast<const Module*>(e.ptr);
      b.cat = "Module";
      F(name, n.name());
      b.fld("stems", [&] { return b.val(n.name().stems()); });
      F(interface_unit, n.interface_unit());
      F(implementation_units, n.implementation_units());
      break;
   }
   case Aux::UsingDesignator: break;
   }
   return std::move(b.out);
}

}   // namespace eng
