// Category lists (every code in declaration order; the leaf categories that have an interface class and a visitor hook).
#pragma once

#define VERIF_CATEGORIES(X) \
   X(Unknown) X(Annotation) X(Region) X(Comment) X(String) X(Parameter_list) X(Overload) X(Array) X(Class) X(Decltype) X(As_type) X(Enum) \
   X(Tor) X(Function) X(Namespace) X(Pointer) X(Ptr_to_member) X(Product) X(Qualified) X(Reference) X(Rvalue_reference) X(Sum) X(Forall) \
   X(Union) X(Auto) X(Closure) X(Identifier) X(Operator) X(Suffix) X(Conversion) X(Template_id) X(Type_id) X(Ctor_name) X(Dtor_name) \
   X(Guide_name) X(Phantom) X(Eclipsis) X(Lambda) X(Requires) X(Symbol) X(Address) X(Array_delete) X(Asm) X(Complement) X(Delete) \
   X(Demotion) X(Deref) X(Expr_list) X(Alignof) X(Sizeof) X(Typeid) X(Id_expr) X(Label) X(Materialization) X(Not) X(Enclosure) \
   X(Post_decrement) X(Post_increment) X(Pre_decrement) X(Pre_increment) X(Promotion) X(Read) X(Throw) X(Unary_minus) X(Unary_plus) \
   X(Expansion) X(Noexcept) X(Args_cardinality) X(Restriction) X(Rewrite) X(Scope_ref) X(Plus) X(Plus_assign) X(And) X(Array_ref) X(Arrow) \
   X(Arrow_star) X(Assign) X(Bitand) X(Bitand_assign) X(Bitor) X(Bitor_assign) X(Bitxor) X(Bitxor_assign) X(Call) X(Cast) X(Coercion) \
   X(Comma) X(Const_cast) X(Construction) X(Div) X(Div_assign) X(Dot) X(Dot_star) X(Dynamic_cast) X(Equal) X(Greater) X(Greater_equal) \
   X(Less) X(Less_equal) X(Literal) X(Lshift) X(Lshift_assign) X(Mapping) X(Member_init) X(Modulo) X(Modulo_assign) X(Mul) X(Mul_assign) \
   X(Narrow) X(Not_equal) X(Or) X(Pretend) X(Qualification) X(Reinterpret_cast) X(Rshift) X(Rshift_assign) X(Static_cast) X(Widen) X(Minus) \
   X(Minus_assign) X(Binary_fold) X(Where) X(Static_assert) X(Instantiation) X(New) X(Conditional) X(Scope) X(Deduction_guide) \
   X(Specifiers_spread) X(Structured_binding) X(Using_declaration) X(Using_directive) X(Phased_evaluation) X(Pragma) X(Block) X(Break) \
   X(Continue) X(Ctor_body) X(Do) X(Expr_stmt) X(For) X(For_in) X(Goto) X(Handler) X(If) X(Labeled_stmt) X(Return) X(Switch) X(While) \
   X(Alias) X(Base_type) X(Enumerator) X(Field) X(Bitfield) X(Fundecl) X(Template) X(Parameter) X(Typedecl) X(Var) X(EH_parameter) X(Unit) \
   X(last_code_cat)

#define VERIF_LEAF_CATEGORIES(X) \
   X(Annotation) X(Region) X(Comment) X(String) X(Parameter_list) X(Overload) X(Array) X(Class) X(Decltype) X(As_type) X(Enum) X(Tor) \
   X(Function) X(Namespace) X(Pointer) X(Ptr_to_member) X(Product) X(Qualified) X(Reference) X(Rvalue_reference) X(Sum) X(Forall) X(Union) \
   X(Auto) X(Closure) X(Identifier) X(Operator) X(Suffix) X(Conversion) X(Template_id) X(Type_id) X(Ctor_name) X(Dtor_name) X(Guide_name) \
   X(Phantom) X(Eclipsis) X(Lambda) X(Requires) X(Symbol) X(Address) X(Array_delete) X(Asm) X(Complement) X(Delete) X(Demotion) X(Deref) \
   X(Expr_list) X(Alignof) X(Sizeof) X(Typeid) X(Id_expr) X(Label) X(Materialization) X(Not) X(Enclosure) X(Post_decrement) \
   X(Post_increment) X(Pre_decrement) X(Pre_increment) X(Promotion) X(Read) X(Throw) X(Unary_minus) X(Unary_plus) X(Expansion) X(Noexcept) \
   X(Args_cardinality) X(Restriction) X(Rewrite) X(Scope_ref) X(Plus) X(Plus_assign) X(And) X(Array_ref) X(Arrow) X(Arrow_star) X(Assign) \
   X(Bitand) X(Bitand_assign) X(Bitor) X(Bitor_assign) X(Bitxor) X(Bitxor_assign) X(Call) X(Cast) X(Coercion) X(Comma) X(Const_cast) \
   X(Construction) X(Div) X(Div_assign) X(Dot) X(Dot_star) X(Dynamic_cast) X(Equal) X(Greater) X(Greater_equal) X(Less) X(Less_equal) \
   X(Literal) X(Lshift) X(Lshift_assign) X(Mapping) X(Member_init) X(Modulo) X(Modulo_assign) X(Mul) X(Mul_assign) X(Narrow) X(Not_equal) \
   X(Or) X(Pretend) X(Qualification) X(Reinterpret_cast) X(Rshift) X(Rshift_assign) X(Static_cast) X(Widen) X(Minus) X(Minus_assign) \
   X(Binary_fold) X(Where) X(Static_assert) X(Instantiation) X(New) X(Conditional) X(Scope) X(Specifiers_spread) X(Structured_binding) \
   X(Using_declaration) X(Using_directive) X(Phased_evaluation) X(Pragma) X(Block) X(Break) X(Continue) X(Ctor_body) X(Do) X(Expr_stmt) \
   X(For) X(For_in) X(Goto) X(Handler) X(If) X(Labeled_stmt) X(Return) X(Switch) X(While) X(Alias) X(Base_type) X(Enumerator) X(Field) \
   X(Bitfield) X(Fundecl) X(Template) X(Parameter) X(Typedecl) X(Var) X(EH_parameter)
