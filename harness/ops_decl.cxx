// Ops for declarations, members, directives, declarator forms, attributes,
// capture specifications, units/modules, regions, and the harness-only ops.
#include "interp_util.hpp"
#include "printing.hpp"

namespace eng {
using namespace ipr;
namespace cf = ipr::cxx_form;

namespace {

// ------------------------------------------------------------ declarations --
const char* const decl_factory_names[] = {"Scope::make_alias",    "Scope::make_var",     "Scope::make_field",           "Scope::make_bitfield",
                                          "Scope::make_typedecl", "Scope::make_fundecl", "Scope::make_primary_template", "Scope::make_secondary_template"};
const Category_code decl_cats[] = {Category_code::Alias,    Category_code::Var,     Category_code::Field,    Category_code::Bitfield,
                                   Category_code::Typedecl, Category_code::Fundecl, Category_code::Template, Category_code::Template};

template<class F>
void for_group(World& w, const DeclH& h, F f)
{
   for (auto& d : w.decls)
      if (d.scope == h.scope && d.kind <= 7 && d.name == h.name && d.type == h.type) f(d);
}

void refresh_group(World& w, const DeclH& h)
{
   std::vector<const Decl*> group;
   for_group(w, h, [&](const DeclH& d) { group.push_back(d.decl); });
   std::vector<Val> xs;
   for (auto d : group) xs.push_back(N(*d));
   for (auto d : group)
      if (auto r = w.rec_for(static_cast<const Node*>(d))) r->exp("master", N(*group.front())).exp("decl_set", Val::list(xs));
}

void decl_fill(World& w, const DeclH h, const Op& op);

void op_DECL(World& w, const Op& op)
{
   const std::size_t si = op.b % w.scopes.size();
   ScopeModel sm = w.scopes[si];   // copy: the vector may grow
   const bool small = w.counters["small_universe"] != 0;
   const Name* name = small ? w.names[op.c % std::min<std::size_t>(6, w.names.size())] : World::pick(w.names, op.c);
   int kind = op.a % 8;
   const Type* type = nullptr;
   const Expr* alias_init = nullptr;
   if (kind == 5 && w.functions.empty()) kind = 1;
   if (kind >= 6 && w.foralls.empty()) kind = 1;
   if (w.flags.complete_decls && ((kind == 5 && w.plists.empty() && w.mappings.empty()) || (kind >= 6 && w.mappings.empty()))) kind = 1;   // nothing to complete it with yet
   switch (kind) {
   case 0:
      alias_init = small ? w.typed_exprs[op.d % std::min<std::size_t>(8, w.typed_exprs.size())] : World::pick(w.typed_exprs, op.d);
      try {
         type = &alias_init->type();
      }
      catch (const std::logic_error&) {
         return;   // S5: make_alias reads the initializer's type
      }
      break;
   case 5: type = small ? w.functions[op.d % std::min<std::size_t>(3, w.functions.size())] : World::pick(w.functions, op.d); break;
   case 6:
   case 7: type = small ? w.foralls[op.d % std::min<std::size_t>(3, w.foralls.size())] : World::pick(w.foralls, op.d); break;
   default: type = small ? w.types[op.d % 6] : World::pick(w.types, op.d); break;
   }
   // S3: in one scope a (name, type) pair is used by one declaration kind
   for (auto di : sm.decls) {
      const DeclH& e = w.decls[di];
      if (e.name == name && e.type == type && e.kind != kind) {
         if (e.kind == 0) {
            // need an initializer of that very type
            alias_init = nullptr;
            for (auto x : w.typed_exprs) {
               try {
                  if (&x->type() == type) { alias_init = x; break; }
               }
               catch (const std::logic_error&) {
               }
            }
            if (!alias_init) return;
         }
         kind = e.kind;
         break;
      }
   }
   const int route = op.e % 3;
   impl::Scope* sc = sm.scope;
   impl::Region* rg = sm.iregion;
   void* impl_ptr = nullptr;
   const Decl* decl = nullptr;
   std::string factory = decl_factory_names[kind];
   StmtH sh;
   auto udt_call = [&](auto fn) -> bool {   // route 2: through the user-defined type that owns the region
      if (route != 2 || sm.udt == nullptr) return false;
      switch (sm.udt_kind) {
      case 0: fn(static_cast<impl::Class*>(sm.udt)); return true;
      case 1: fn(static_cast<impl::Union*>(sm.udt)); return true;
      case 2: fn(static_cast<impl::Namespace*>(sm.udt)); return true;
      case 3: fn(static_cast<impl::Closure*>(sm.udt)); return true;
      }
      return false;
   };
#define VERIF_DECLARE(IMPL, SCOPE_FN, REGION_FN, ARG)                                               \
   {                                                                                                \
      impl::IMPL* d = nullptr;                                                                      \
      if (udt_call([&](auto* u) { d = u->REGION_FN(*name, ARG); })) factory = "Udt::" #REGION_FN;    \
      else if (route == 1 && rg) { d = rg->REGION_FN(*name, ARG); factory = "Region::" #REGION_FN; } \
      else d = sc->SCOPE_FN(*name, ARG);                                                            \
      impl_ptr = d;                                                                                 \
      decl = d;                                                                                     \
      sh = stmt_handle(d);                                                                          \
   }
   // a front end asks "is this a redeclaration?" before it declares: the name is looked up just before and just after
   bool declared_before = false;
   for (auto di : sm.decls) declared_before = declared_before || w.decls[di].name == name;
   try {
      const bool found = (*sc)[*name].is_valid();
      if (found != declared_before)
         w.findings.fail(declared_before ? "C07:lookup-missed:Scope" : "C07:lookup-phantom:Scope", "lookup just before a declaration disagrees with the declarations entered so far");
      w.findings.count(found ? "lookups_before_declaring_found" : "lookups_before_declaring_missed");
   }
   catch (const std::logic_error&) {
      w.findings.count("lookups_refused_unnamed_member");
   }
   switch (kind) {
   case 0: {
      // Region/Udt::declare_alias take a Type ("const ipr::Type& t") and forward it as the initializer
      impl::Alias* d = nullptr;
      // when the initializer is itself a type, the convenience routes are available as well
      const Type* as_type = dynamic_cast<const Type*>(alias_init);
      if (as_type && udt_call([&](auto* u) { d = u->declare_alias(*name, *as_type); })) factory = "Udt::declare_alias";
      else if (as_type && route == 1 && rg) {
         d = rg->declare_alias(*name, *as_type);
         factory = "Region::declare_alias";
      }
      else d = sc->make_alias(*name, *alias_init);
      impl_ptr = d;
      decl = d;
      sh = stmt_handle(d);
      break;
   }
   case 1: VERIF_DECLARE(Var, make_var, declare_var, *type) break;
   case 2: VERIF_DECLARE(Field, make_field, declare_field, *type) break;
   case 3: VERIF_DECLARE(Bitfield, make_bitfield, declare_bitfield, *type) break;
   case 4: VERIF_DECLARE(Typedecl, make_typedecl, declare_type, *type) break;
   case 5: VERIF_DECLARE(Fundecl, make_fundecl, declare_fun, *static_cast<const Function*>(type)) break;
   case 6: VERIF_DECLARE(Template, make_primary_template, declare_primary_template, *static_cast<const Forall*>(type)) break;
   default: VERIF_DECLARE(Template, make_secondary_template, declare_secondary_template, *static_cast<const Forall*>(type)) break;
   }
#undef VERIF_DECLARE
   try {
      if (!(*sc)[*name].is_valid()) w.findings.fail("C07:lookup-missed:Scope", "a name is not found right after it was declared in the scope");
   }
   catch (const std::logic_error&) {
      w.findings.count("lookups_refused_unnamed_member");
   }
   Rec& r = w.record_node(w.intern_name(factory), *decl, decl_cats[kind]);
   r.exp("name", N(*name)).exp("type", N(*type)).exp("specifiers", U(0)).exp("home_region", Val::throws()).exp("decl_linkage", Val::throws());
   r.mutable_container = true;   // its decl-set may gain redeclarations
   switch (kind) {
   case 0: r.exp("initializer", N(*alias_init)).exp("lexical_region", Val::throws()); break;
   case 1: r.exp("initializer", Val::absent()).exp("lexical_region", Val::throws()).exp("definition", Val::absent()); break;
   case 2: r.exp("initializer", Val::absent()).exp("lexical_region", Val::throws()); break;
   case 3: r.exp("initializer", Val::absent()).exp("lexical_region", Val::throws()).exp("precision", Val::throws()); break;
   case 4: r.exp("initializer", Val::absent()).exp("lexical_region", Val::throws()).exp("definition", Val::absent()); break;
   case 5:
      r.exp("initializer", Val::absent()).exp("lexical_region", Val::throws()).exp("definition", Val::absent()).exp("mapping", Val::absent()).exp("parameters", Val::throws());
      break;
   default:
      r.exp("initializer", Val::throws()).exp("lexical_region", Val::throws()).exp("definition", Val::absent()).exp("mapping", Val::throws()).exp("specializations", Val::list({}));
      break;
   }
   DeclH h;
   h.decl = decl;
   h.kind = kind;
   h.scope = sc;
   h.name = name;
   h.type = type;
   h.impl = impl_ptr;
   w.decls.push_back(h);
   w.scopes[si].decls.push_back(int(w.decls.size() - 1));
   bool redecl = false, overload = false;
   for (auto di : sm.decls) {
      if (w.decls[di].name == name && w.decls[di].type == type) redecl = true;
      if (w.decls[di].name == name && w.decls[di].type != type) overload = true;
   }
   if (redecl) w.findings.count("redeclarations");
   if (overload) w.findings.count("overloads");
   w.findings.count("declarations");
   w.findings.count("member_additions");
   refresh_group(w, h);
   // a redeclaration shares the master record of its decl-set: home region, language linkage and definition
   {
      const Decl* first = nullptr;
      for_group(w, h, [&](const DeclH& d) { if (!first) first = d.decl; });
      if (first && first != decl)
         if (auto fr = w.rec_for(static_cast<const Node*>(first))) {
            for (const char* shared : {"home_region", "decl_linkage", "definition"})
               if (auto v = find(fr->expect, shared))
                  if (find(r.expect, shared)) r.exp(shared, *v);
            if (kind == 0 || kind == 2 || kind == 3)
               if (auto v = find(fr->expect, "home_region")) r.exp("lexical_region", *v);
         }
   }
   if (kind == 1) w.vars.push_back(static_cast<impl::Var*>(impl_ptr));
   if (kind >= 6) {
      w.templates.push_back(static_cast<impl::Template*>(impl_ptr));
      if (kind == 6) {
         // primary template: the master of its decl-set is the primary
         const Decl* first = decl;
         for_group(w, h, [&](const DeclH& d) { if (first == decl) first = d.decl; });
         r.exp("primary_template", N(*first));
      }
      else r.exp("primary_template", Val::throws());
   }
   w.add_stmt(sh);
   w.add_expr(*decl, true);
   w.note(factory);
   if (w.flags.complete_decls) {
      // printable programs: give the declaration at once the parts without which a printer must refuse it
      Op f = op;
      f.a = kind == 3 ? 8 : (kind == 5 ? 6 : (kind >= 6 ? 7 : 255));
      f.c = op.f;
      f.d = op.e;
      if (f.a != 255) decl_fill(w, h, f);
   }
}

template<class F>
bool with_decl(const DeclH& h, F f)
{
   switch (h.kind) {
   case 0: f(static_cast<impl::Alias*>(h.impl)); return true;
   case 1: f(static_cast<impl::Var*>(h.impl)); return true;
   case 2: f(static_cast<impl::Field*>(h.impl)); return true;
   case 3: f(static_cast<impl::Bitfield*>(h.impl)); return true;
   case 4: f(static_cast<impl::Typedecl*>(h.impl)); return true;
   case 5: f(static_cast<impl::Fundecl*>(h.impl)); return true;
   case 6:
   case 7: f(static_cast<impl::Template*>(h.impl)); return true;
   }
   return false;
}

void decl_fill(World& w, const DeclH h, const Op& op);

void op_DECL_FILL(World& w, const Op& op)
{
   if (w.flags.fill_at_creation) return;
   std::vector<int> real;
   for (std::size_t i = 0; i < w.decls.size(); ++i)
      if (w.decls[i].kind <= 7) real.push_back(int(i));
   if (real.empty()) return;
   decl_fill(w, w.decls[World::pick(real, op.b)], op);
}

void decl_fill(World& w, const DeclH h, const Op& op)
{
   auto rec = w.rec_for(static_cast<const Node*>(h.decl));
   switch (op.a % 9) {
   case 0: {   // specifiers
      const unsigned bits = (op.c | (op.d << 8) | (op.e << 16)) & 0x3ffff;
      with_decl(h, [&](auto* d) { d->specifiers(Specifiers{bits}); });
      if (rec) rec->exp("specifiers", U(bits));
      break;
   }
   case 1: {   // home region, shared by the whole decl-set through the master record
      const Region* r = World::pick(w.all_regions, op.c);
      with_decl(h, [&](auto* d) { d->decl_data.master_data->home = r; });
      for_group(w, h, [&](const DeclH& d) {
         if (auto x = w.rec_for(static_cast<const Node*>(d.decl))) {
            x->exp("home_region", N(*r));
            if (d.kind == 0 || d.kind == 2 || d.kind == 3) x->exp("lexical_region", N(*r));
         }
      });
      break;
   }
   case 2: {   // language linkage, shared likewise
      const Linkage* l = World::pick(w.linkages, op.c);
      with_decl(h, [&](auto* d) { d->decl_data.master_data->langlinkage = l; });
      for_group(w, h, [&](const DeclH& d) {
         if (auto x = w.rec_for(static_cast<const Node*>(d.decl))) x->exp("decl_linkage", Val::obj(l));
      });
      break;
   }
   case 3: {   // lexical region
      const Region* r = World::pick(w.all_regions, op.c);
      bool done = false;
      with_decl(h, [&](auto* d) {
         if constexpr (requires { d->lexreg; }) {
            d->lexreg = r;
            done = true;
         }
      });
      if (done && rec) rec->exp("lexical_region", N(*r));
      break;
   }
   case 4: {   // initializer
      if (h.kind == 1 || h.kind == 2 || h.kind == 3) {
         const Expr& e = w.expr_before(*h.decl, op.c);
         with_decl(h, [&](auto* d) {
            if constexpr (requires { d->init = &e; }) d->init = &e;
         });
         if (rec) rec->exp("initializer", N(e));
      }
      else if (h.kind == 4) {
         const Type& t = *World::pick(w.types, op.c);
         static_cast<impl::Typedecl*>(h.impl)->init = &t;
         if (rec) rec->exp("initializer", N(t));
      }
      break;
   }
   case 5: {   // the definition of the decl-set
      bool done = false;
      with_decl(h, [&](auto* d) {
         using D = std::remove_pointer_t<decltype(d)>;
         d->decl_data.master_data->def = static_cast<const typename D::Interface*>(d);
         done = true;
      });
      if (done)
         for_group(w, h, [&](const DeclH& d) {
            if (d.kind == 1 || d.kind >= 4)
               if (auto x = w.rec_for(static_cast<const Node*>(d.decl))) x->exp("definition", N(*h.decl));
         });
      break;
   }
   case 6: {   // function declaration data
      if (h.kind != 5) break;
      auto f = static_cast<impl::Fundecl*>(h.impl);
      if (op.c % 4 == 3) {
         // a definition is announced but its mapping is not built yet: every reading of it is refused
         static_cast<std::variant<impl::Parameter_list*, impl::Mapping*>&>(f->data).emplace<1>(nullptr);
         if (rec) rec->exp("mapping", Val::absent()).exp("initializer", Val::absent()).exp("parameters", Val::throws());
      }
      else if (op.c % 2 && !w.mappings.empty()) {
         auto m = World::pick(w.mappings, op.d);
         static_cast<std::variant<impl::Parameter_list*, impl::Mapping*>&>(f->data) = m;
         if (rec) rec->exp("mapping", N(*m)).exp("initializer", N(*m)).exp("parameters", N(m->inputs));
      }
      else if (!w.plists.empty()) {
         auto pl = World::pick(w.plists, op.d);
         static_cast<std::variant<impl::Parameter_list*, impl::Mapping*>&>(f->data) = pl;
         if (rec) rec->exp("mapping", Val::absent()).exp("initializer", Val::absent()).exp("parameters", N(*pl));
      }
      break;
   }
   case 7: {   // template mapping
      if (h.kind < 6 || w.mappings.empty()) break;
      auto t = static_cast<impl::Template*>(h.impl);
      auto m = World::pick(w.mappings, op.c);
      t->init = m;
      if (rec) {
         rec->exp("mapping", N(*m)).exp("parameters", N(m->inputs));
         // initializer()/result() are the mapping's result: whatever it answers now
         rec->exp("initializer", Val::any()).exp("result", Val::any());
      }
      break;
   }
   default: {   // bit-field width
      if (h.kind != 3) break;
      const Expr& e = w.expr_before(*h.decl, op.c);
      static_cast<impl::Bitfield*>(h.impl)->length = &e;
      if (rec) rec->exp("precision", N(e));
      break;
   }
   }
   w.note("decl-fill");
}


// A declaration-set of a primary template built in one go: the same (scope, name, Forall type) declared twice, each
// declaration with a mapping of its own whose result is set, and (two times out of three) one of them recorded as the
// definition of the set.  Random single ops reach this state only once in many thousand scripts.
void op_TEMPLATE_FAMILY(World& w, const Op& op)
{
   if (w.foralls.empty() || w.scopes.empty() || w.exprs.empty()) return;
   DeclH family[2];
   for (int k = 0; k < 2; ++k) {
      const std::size_t before = w.decls.size();
      Op d = op;
      d.a = 6;   // a primary template; same scope, name and type both times
      op_DECL(w, d);
      if (w.decls.size() == before || w.decls.back().kind != 6) return;
      family[k] = w.decls.back();
      const std::size_t mbefore = w.mappings.size();
      Op m{};
      m.a = op.e;
      m.b = std::uint8_t(op.f % 4);
      m.c = std::uint8_t(k);
      m.d = 1;   // with a result and a type
      m.e = std::uint8_t(op.f + 11 * k);
      m.f = op.d;
      run_mapping_op(w, m);
      if (w.mappings.size() == mbefore) return;
      auto mp = w.mappings.back();
      static_cast<impl::Template*>(family[k].impl)->init = mp;
      if (auto rec = w.rec_for(static_cast<const Node*>(family[k].decl)))
         rec->exp("mapping", N(*mp)).exp("parameters", N(mp->inputs)).exp("initializer", Val::any()).exp("result", Val::any());
   }
   // (C05 convention: nothing that existed before this op is assigned to -- the definition is recorded only when the
   // declaration-set was started by this op)
   bool started_here = true;
   for_group(w, family[0], [&](const DeclH& d) { started_here = started_here && (d.decl == family[0].decl || d.decl == family[1].decl); });
   if (op.a % 3 != 0 && (started_here || !w.flags.fill_at_creation)) {
      const DeclH& defining = family[op.a % 3 - 1];
      auto t = static_cast<impl::Template*>(defining.impl);
      t->decl_data.master_data->def = static_cast<const ipr::Template*>(t);
      for_group(w, defining, [&](const DeclH& d) {   // the definition is a property of the whole declaration-set
         if (auto x = w.rec_for(static_cast<const Node*>(d.decl))) x->exp("definition", N(*defining.decl));
      });
   }
   w.findings.count("template_families");
   w.note("template family");
}

void op_ENUMERATOR(World& w, const Op& op)
{
   if (w.enums.empty()) return;
   auto e = World::pick(w.enums, op.a);
   // S4: enumerator names within one enumeration are distinct
   const Name* name = nullptr;
   for (unsigned tries = 0; tries < w.names.size() && !name; ++tries) {
      const Name* n = World::pick(w.names, op.b + tries);
      bool used = false;
      for (std::size_t i = 0; i < e->members().size(); ++i)
         if (physically_same(e->members().position(i)->name(), *n)) used = true;
      if (!used) name = n;
   }
   if (!name) return;
   const std::size_t pos = e->members().size();
   auto en = e->add_member(*name);
   Rec& r = w.record_node("Enum::add_member", *en, Category_code::Enumerator);
   r.exp("name", N(*name))
      .exp("type", N(*e))
      .exp("position", U(pos))
      .exp("home_region", N(e->body))
      .exp("lexical_region", N(e->body))
      .exp("initializer", Val::absent())
      .exp("master", N(*en))
      .exp("decl_set", Val::list({N(*en)}))
      .exp("specifiers", U(0));
   if (op.c % 3 == 0) {
      auto& init = *World::pick(w.exprs, op.d);
      en->init = &init;
      r.exp("initializer", N(init));
   }
   if (auto er = w.rec_for(static_cast<const Node*>(e))) {
      std::vector<Val> xs;
      for (std::size_t i = 0; i < e->members().size(); ++i) xs.push_back(N(*e->members().position(i)));
      er->exp("members", Val::list(xs));
   }
   DeclH h;
   h.decl = en;
   h.kind = 9;
   h.name = name;
   h.type = e;
   h.impl = en;
   w.decls.push_back(h);
   w.add_stmt(stmt_handle(en));
   w.add_expr(*en, true);
   w.findings.count("member_additions");
   w.note("enumerator");
}

void op_BASE(World& w, const Op& op)
{
   if (w.classes.empty()) return;
   auto c = World::pick(w.classes, op.a);
   // S4: base types within one class are distinct
   const Type* t = nullptr;
   for (unsigned tries = 0; tries < w.types.size() && !t; ++tries) {
      const Type* cand = World::pick(w.types, op.b + tries);
      bool used = cand == static_cast<const Type*>(c);
      for (std::size_t i = 0; i < c->bases().size(); ++i)
         if (physically_same(c->bases().position(i)->type(), *cand)) used = true;
      if (!used) t = cand;
   }
   if (!t) return;
   const std::size_t pos = c->bases().size();
   auto b = c->declare_base(*t);
   Rec& r = w.record_node("Class::declare_base", *b, Category_code::Base_type);
   r.exp("type", N(*t))
      .exp("position", U(pos))
      .exp("home_region", N(c->base_subobjects))
      .exp("lexical_region", N(c->base_subobjects))
      .exp("initializer", Val::throws())
      .exp("master", N(*b))
      .exp("decl_set", Val::list({N(*b)}))
      .exp("specifiers", U(0));
   if (op.c % 3 == 0) {
      const unsigned bits = op.d & 0x1f;
      b->spec = Specifiers{bits};
      r.exp("specifiers", U(bits));
   }
   if (auto cr = w.rec_for(static_cast<const Node*>(c))) {
      std::vector<Val> xs;
      for (std::size_t i = 0; i < c->bases().size(); ++i) xs.push_back(N(*c->bases().position(i)));
      cr->exp("bases", Val::list(xs));
   }
   DeclH h;
   h.decl = b;
   h.kind = 10;
   h.type = t;
   h.impl = b;
   w.decls.push_back(h);
   w.add_stmt(stmt_handle(b));
   w.add_expr(*b, true);
   w.findings.count("member_additions");
   w.note("base");
}

void op_CAPTURE(World& w, const Op& op)
{
   if (w.closures.empty() || w.decls.empty()) return;
   auto c = World::pick(w.closures, op.a);
   const Decl& d = *World::pick(w.decls, op.b).decl;
   const Binding_mode m{std::uint8_t(op.c % 3)};
   auto cap = c->captures.push_back(d, m);
   w.record("Closure::captures.push_back", Entity{Aux::Capture, static_cast<const Capture*>(cap)}, Category_code::Unknown, true).exp("mode", U(op.c % 3)).exp("entity", N(d));
   if (auto cr = w.rec_for(static_cast<const Node*>(c))) {
      std::vector<Val> xs;
      for (std::size_t i = 0; i < c->members().size(); ++i) xs.push_back(Val::obj(&*c->members().position(i)));
      cr->exp("members", Val::list(xs));
   }
   w.findings.count("member_additions");
   w.note("capture");
}

// -------------------------------------------------------------- directives --
void op_SPREAD(World& w, const Op& op)
{
   auto d = w.L().make_specifiers_spread();
   Rec& r = w.record_node("make_specifiers_spread", *d, Category_code::Specifiers_spread);
   r.exp("specifiers", U(0)).exp("targets", Val::list({})).exp("phases", U(std::uint64_t(Phases::Elaboration))).exp("type", Val::throws());
   w.spreads.push_back(d);
   if (w.flags.fill_at_creation || w.flags.complete_decls || op.a % 2) {
      const unsigned bits = (op.b | (op.c << 8)) & 0x3ffff;
      d->specs = Specifiers{bits};
      auto& t = *World::pick(w.types, op.d);
      d->typing = &t;
      r.exp("specifiers", U(bits)).exp("type", N(t));
   }
   w.add_expr(*d, false);
   w.note("make_specifiers_spread");
}

void op_SBIND(World& w, const Op& op)
{
   auto d = w.L().make_structured_binding();
   Rec& r = w.record_node("make_structured_binding", *d, Category_code::Structured_binding);
   r.exp("specifiers", U(0))
      .exp("mode", U(0))
      .exp("names", Val::list({}))
      .exp("initializer", Val::throws())
      .exp("bindings", Val::list({}))
      .exp("phases", U(std::uint64_t(Phases::Elaboration)))
      .exp("type", Val::throws());
   r.mutable_container = true;
   w.sbindings.push_back(d);
   if (w.flags.fill_at_creation || w.flags.complete_decls || op.a % 2) {
      auto& e = *World::pick(w.exprs, op.b);
      d->init = &e;
      d->binding_mode = Binding_mode{std::uint8_t(op.c % 3)};
      d->specs = Specifiers{op.d & 0xffu};
      r.exp("initializer", N(e)).exp("mode", U(op.c % 3)).exp("specifiers", U(op.d & 0xffu));
   }
   w.add_expr(*d, false);
   w.note("make_structured_binding");
}

void op_SBIND_PUSH(World& w, const Op& op)
{
   if (w.sbindings.empty()) return;
   auto d = World::pick(w.sbindings, op.a);
   auto rec = w.rec_for(static_cast<const Node*>(d));
   if (op.b % 2) {
      const Identifier* id = World::pick(w.idents, op.c);
      d->ids.push_back(id);
      if (rec) {
         std::vector<Val> xs;
         for (std::size_t i = 0; i < d->names().size(); ++i) xs.push_back(N(*d->names().position(i)));
         rec->exp("names", Val::list(xs));
      }
   }
   else if (!w.decls.empty()) {
      const Decl* dd = World::pick(w.decls, op.c).decl;
      d->decl_seq.push_back(dd);
      if (rec) {
         std::vector<Val> xs;
         for (std::size_t i = 0; i < d->bindings().size(); ++i) xs.push_back(N(*d->bindings().position(i)));
         rec->exp("bindings", Val::list(xs));
      }
   }
   w.findings.count("member_additions");
   w.note("structured_binding.push");
}

void op_USING1(World& w, const Op& op)
{
   if (w.scope_refs.empty()) return;
   auto& sr = *World::pick(w.scope_refs, op.a);
   const auto mode = Using_declaration::Designator::Mode(op.b % 3);
   auto d = w.L().make_using_declaration(sr, mode);
   w.record_node("make_using_declaration(Scope_ref,Mode)", *d, Category_code::Using_declaration)
      .exp("designators", Val::list({Val::list({N(sr), U(op.b % 3)})}))
      .exp("phases", U(std::uint64_t(Phases::Elaboration)))
      .exp("type", Val::throws());
   w.add_expr(*d, false);
   w.note("make_using_declaration(1)");
}

void op_USINGN(World& w, const Op&)
{
   auto d = w.L().make_using_declaration();
   Rec& r = w.record_node("make_using_declaration()", *d, Category_code::Using_declaration);
   r.exp("designators", Val::list({})).exp("phases", U(std::uint64_t(Phases::Elaboration))).exp("type", Val::throws());
   r.mutable_container = true;
   w.usings.push_back(d);
   w.add_expr(*d, false);
   w.note("make_using_declaration()");
}

void op_USING_PUSH(World& w, const Op& op)
{
   if (w.usings.empty() || w.scope_refs.empty()) return;
   auto d = World::pick(w.usings, op.a);
   auto& sr = *World::pick(w.scope_refs, op.b);
   d->seq.push_back(sr, Using_declaration::Designator::Mode(op.c % 3));
   if (auto rec = w.rec_for(static_cast<const Node*>(d))) {
      std::vector<Val> xs;
      for (std::size_t i = 0; i < d->designators().size(); ++i) {
         auto& g = *d->designators().position(i);
         xs.push_back(Val::list({N(g.path()), U(std::uint64_t(g.mode()))}));
      }
      rec->exp("designators", Val::list(xs));
   }
   w.findings.count("member_additions");
   w.note("using.push");
}

void op_USING_DIR(World& w, const Op& op)
{
   const Scope& s = *World::pick(w.scopes, op.a).scope;
   auto& t = *World::pick(w.types, op.b);
   auto d = w.L().make_using_directive(s, t);
   w.record_node("make_using_directive", *d, Category_code::Using_directive)
      .exp("nominated_scope", N(s))
      .exp("type", N(t))
      .exp("phases", U(std::uint64_t(Phases::Elaboration)));
   w.add_expr(*d, true);
   w.note("make_using_directive");
}

void op_PHASED(World& w, const Op& op)
{
   auto& e = *World::pick(w.exprs, op.a);
   const unsigned ph = (op.b | (op.c << 8)) & 0xfff;
   auto d = w.L().make_phased_evaluation(e, Phases(ph));
   w.record_node("make_phased_evaluation", *d, Category_code::Phased_evaluation).exp("expression", N(e)).exp("phases", U(ph)).exp("type", Val::type_of(e));
   w.add_expr(*d, false);
   w.note("make_phased_evaluation");
}

void op_PRAGMA(World& w, const Op&)
{
   auto d = w.L().make_pragma();
   Rec& r = w.record_node("make_pragma", *d, Category_code::Pragma);
   r.exp("incantation", Val::list({})).exp("operand", Val::list({})).exp("phases", U(std::uint64_t(Phases::All))).exp("type", Val::throws());
   r.mutable_container = true;
   w.pragmas.push_back(d);
   w.add_expr(*d, false);
   w.note("make_pragma");
}

void op_PRAGMA_TOKEN(World& w, const Op& op)
{
   if (w.pragmas.empty()) return;
   auto d = World::pick(w.pragmas, op.a);
   auto& s = *World::pick(w.strs, op.b);
   Source_location loc;
   loc.file = File_index{op.c};
   loc.line = Line_number{op.d + 1u};
   loc.column = Column_number{op.e};
   const Token* t = d->tokens.push_back(s, loc, TokenValue{op.f}, TokenCategory{std::uint8_t(op.f / 2)});
   w.record("Pragma::tokens.push_back", Entity{Aux::Token, t}, Category_code::Unknown, true)
      .exp("spelling", N(s))
      .exp("locus", Val::list({U(op.c), U(op.d + 1u), U(op.e)}))
      .exp("value", U(op.f))
      .exp("category", U(op.f / 2));
   w.tokens.push_back(t);
   if (auto rec = w.rec_for(static_cast<const Node*>(d))) {
      std::vector<Val> xs;
      for (std::size_t i = 0; i < d->incantation().size(); ++i) xs.push_back(Val::obj(&*d->incantation().position(i)));
      rec->exp("incantation", Val::list(xs)).exp("operand", Val::list(xs));
   }
   w.findings.count("member_additions");
   w.note("pragma.token");
}

// ------------------------------------------------------------------- forms --
void host_attrs(World& w, Entity e, impl::ref_sequence<Attribute>* seq) { w.attr_hosts.push_back({e, seq}); }

template<class T>
std::vector<Val> obj_list_of(const Sequence<T>& s)
{
   std::vector<Val> xs;
   for (std::size_t i = 0; i < s.size(); ++i) xs.push_back(Val::obj(&*s.position(i)));
   return xs;
}

void op_FORM(World& w, const Op& op)
{
   auto rg = World::pick(w.regions, op.b);
   cf::impl::form_factory& ff = *rg;
   auto& id = *World::pick(w.idents, op.c);
   auto& ex = *World::pick(w.exprs, op.d);
   auto& nm = *World::pick(w.names, op.c);
   const Qualifiers q{op.e % 8u};
   switch (op.a % 28) {
   case 0: {
      auto x = ff.make_monadic_constraint(id);
      w.record("make_monadic_constraint(id)", Entity{Aux::Constraint, static_cast<const cf::Constraint*>(x)}, Category_code::Unknown, true)
         .exp("scope", Val::absent())
         .exp("concept_name", N(id));
      w.constraints.push_back(x);
      break;
   }
   case 1: {
      auto x = ff.make_monadic_constraint(ex, id);
      w.record("make_monadic_constraint(scope,id)", Entity{Aux::Constraint, static_cast<const cf::Constraint*>(x)}, Category_code::Unknown, true)
         .exp("scope", N(ex))
         .exp("concept_name", N(id));
      w.constraints.push_back(x);
      break;
   }
   case 2: {
      auto x = ff.make_polyadic_constraint(id);
      Rec& r = w.record("make_polyadic_constraint(id)", Entity{Aux::Constraint, static_cast<const cf::Constraint*>(x)}, Category_code::Unknown, true);
      r.exp("scope", Val::absent()).exp("concept_name", N(id)).exp("trailing_arguments", Val::list({}));
      r.mutable_container = true;
      w.constraints.push_back(x);
      w.polyadics.push_back(x);
      break;
   }
   case 3: {
      auto x = ff.make_polyadic_constraint(ex, id);
      Rec& r = w.record("make_polyadic_constraint(scope,id)", Entity{Aux::Constraint, static_cast<const cf::Constraint*>(x)}, Category_code::Unknown, true);
      r.exp("scope", N(ex)).exp("concept_name", N(id)).exp("trailing_arguments", Val::list({}));
      r.mutable_container = true;
      w.constraints.push_back(x);
      w.polyadics.push_back(x);
      break;
   }
   case 4: {
      auto x = ff.make_simple_requirement(ex);
      w.record("make_simple_requirement", Entity{Aux::Requirement, static_cast<const cf::Requirement*>(x)}, Category_code::Unknown, true).exp("expr", N(ex));
      w.requirements.push_back(x);
      break;
   }
   case 5: {
      auto x = ff.make_type_requirement(nm);
      w.record("make_type_requirement(name)", Entity{Aux::Requirement, static_cast<const cf::Requirement*>(x)}, Category_code::Unknown, true)
         .exp("scope", Val::absent())
         .exp("type_name", N(nm));
      w.requirements.push_back(x);
      break;
   }
   case 6: {
      auto x = ff.make_type_requirement(ex, nm);
      w.record("make_type_requirement(scope,name)", Entity{Aux::Requirement, static_cast<const cf::Requirement*>(x)}, Category_code::Unknown, true)
         .exp("scope", N(ex))
         .exp("type_name", N(nm));
      w.requirements.push_back(x);
      break;
   }
   case 7: {
      auto x = ff.make_compound_requirement(ex);
      w.record("make_compound_requirement", Entity{Aux::Requirement, static_cast<const cf::Requirement*>(x)}, Category_code::Unknown, true)
         .exp("expr", N(ex))
         .exp("constraint", Val::absent())
         .exp("nothrow", U(0));
      w.requirements.push_back(x);
      w.compounds.push_back(x);
      break;
   }
   case 8: {
      auto x = ff.make_nested_requirement(ex);
      w.record("make_nested_requirement", Entity{Aux::Requirement, static_cast<const cf::Requirement*>(x)}, Category_code::Unknown, true).exp("condition", N(ex));
      w.requirements.push_back(x);
      break;
   }
   case 9: {
      auto x = ff.make_pointer_indirector(q);
      Entity e{Aux::Indirector, static_cast<const cf::Indirector*>(x)};
      w.record("make_pointer_indirector", e, Category_code::Unknown, true).exp("qualifiers", U(op.e % 8u)).exp("attributes", Val::list({}));
      w.indirectors.push_back(x);
      host_attrs(w, e, &x->attr_seq);
      break;
   }
   case 10: {
      auto x = ff.make_reference_indirector(cf::Reference_flavor(op.e % 2));
      Entity e{Aux::Indirector, static_cast<const cf::Indirector*>(x)};
      w.record("make_reference_indirector", e, Category_code::Unknown, true).exp("flavor", U(op.e % 2)).exp("attributes", Val::list({}));
      w.indirectors.push_back(x);
      host_attrs(w, e, &x->attr_seq);
      break;
   }
   case 11: {
      auto x = ff.make_member_indirector(ex, q);
      Entity e{Aux::Indirector, static_cast<const cf::Indirector*>(x)};
      w.record("make_member_indirector", e, Category_code::Unknown, true).exp("scope", N(ex)).exp("qualifiers", U(op.e % 8u)).exp("attributes", Val::list({}));
      w.indirectors.push_back(x);
      host_attrs(w, e, &x->attr_seq);
      break;
   }
   case 12: {
      auto x = ff.make_unqualified_id_species();
      Entity e{Aux::Species, static_cast<const cf::Species_declarator*>(x)};
      w.record("make_unqualified_id_species()", e, Category_code::Unknown, true).exp("name", Val::absent()).exp("suffix", Val::list({})).exp("attributes", Val::list({}));
      w.species.push_back(x);
      w.species_suffix.push_back(&x->morphisms);
      host_attrs(w, e, &x->attr_seq);
      break;
   }
   case 13: {
      auto x = ff.make_unqualified_id_species(nm);
      Entity e{Aux::Species, static_cast<const cf::Species_declarator*>(x)};
      w.record("make_unqualified_id_species(name)", e, Category_code::Unknown, true).exp("name", N(nm)).exp("suffix", Val::list({})).exp("attributes", Val::list({}));
      w.species.push_back(x);
      w.species_suffix.push_back(&x->morphisms);
      host_attrs(w, e, &x->attr_seq);
      break;
   }
   case 14: {
      auto x = ff.make_pack_species();
      Entity e{Aux::Species, static_cast<const cf::Species_declarator*>(x)};
      w.record("make_pack_species()", e, Category_code::Unknown, true).exp("name", Val::absent()).exp("suffix", Val::list({})).exp("attributes", Val::list({}));
      w.species.push_back(x);
      w.species_suffix.push_back(&x->morphisms);
      host_attrs(w, e, &x->attr_seq);
      break;
   }
   case 15: {
      auto x = ff.make_pack_species(id);
      Entity e{Aux::Species, static_cast<const cf::Species_declarator*>(x)};
      w.record("make_pack_species(id)", e, Category_code::Unknown, true).exp("name", N(id)).exp("suffix", Val::list({})).exp("attributes", Val::list({}));
      w.species.push_back(x);
      w.species_suffix.push_back(&x->morphisms);
      host_attrs(w, e, &x->attr_seq);
      break;
   }
   case 16: {
      auto x = ff.make_qualified_id_species(ex, nm);
      Entity e{Aux::Species, static_cast<const cf::Species_declarator*>(x)};
      w.record("make_qualified_id_species", e, Category_code::Unknown, true).exp("scope", N(ex)).exp("member", N(nm)).exp("suffix", Val::list({})).exp("attributes", Val::list({}));
      w.species.push_back(x);
      w.species_suffix.push_back(&x->morphisms);
      host_attrs(w, e, &x->attr_seq);
      break;
   }
   case 17: {
      auto x = ff.make_parenthesized_species();
      Entity e{Aux::Species, static_cast<const cf::Species_declarator*>(x)};
      w.record("make_parenthesized_species", e, Category_code::Unknown, true).exp("term", Val::throws()).exp("suffix", Val::list({}));
      w.species.push_back(x);
      w.species_suffix.push_back(&x->morphisms);
      w.paren_species.push_back(x);
      break;
   }
   case 18: {
      const unsigned level = op.e % 4;
      auto x = ff.make_function_morphism(*rg, Mapping_level{level});
      Entity e{Aux::Morphism, static_cast<const cf::Morphism*>(x)};
      w.record("make_function_morphism", e, Category_code::Unknown, true)
         .exp("parameters", N(x->inputs))
         .exp("qualifiers", U(0))
         .exp("binding_mode", U(0))
         .exp("throws", Val::absent())
         .exp("attributes", Val::list({}));
      Rec& pr = w.record_node("Parameter_list", x->inputs, Category_code::Parameter_list, false);
      pr.exp("level", U(level)).exp("region", N(x->inputs.parms)).exp("elements", Val::list({})).exp("size", U(0));
      pr.mutable_container = true;
      w.add_foreign_region(&x->inputs.parms, rg, nullptr, false, "function-declarator");
      w.plists.push_back(&x->inputs);
      w.morphisms.push_back(x);
      w.fun_morphisms.push_back(x);
      host_attrs(w, e, &x->attr_seq);
      break;
   }
   case 19: {
      auto x = ff.make_array_morphism();
      Entity e{Aux::Morphism, static_cast<const cf::Morphism*>(x)};
      w.record("make_array_morphism", e, Category_code::Unknown, true).exp("bound", Val::absent()).exp("attributes", Val::list({}));
      w.morphisms.push_back(x);
      w.array_morphisms.push_back(x);
      host_attrs(w, e, &x->attr_seq);
      break;
   }
   case 20: {
      auto x = ff.make_term_declarator();
      Rec& r = w.record("make_term_declarator", Entity{Aux::Declarator, static_cast<const cf::Declarator*>(x)}, Category_code::Unknown, true);
      r.exp("species", Val::throws()).exp("indirectors", Val::list({}));
      r.mutable_container = true;
      w.terms.push_back(x);
      w.term_impls.push_back(x);
      break;
   }
   case 21: {
      if (w.species.empty()) break;
      auto& sp = *World::pick(w.species, op.c);
      auto& t = *World::pick(w.types, op.d);
      auto x = ff.make_targeted_declarator(sp, t);
      w.record("make_targeted_declarator", Entity{Aux::Declarator, static_cast<const cf::Declarator*>(x)}, Category_code::Unknown, true)
         .exp("species", Val::obj(static_cast<const cf::Species_declarator*>(&sp)))
         .exp("target", N(t));
      break;
   }
   case 22: {
      if (w.elem_inits.empty()) break;
      auto& ei = *World::pick(w.elem_inits, op.c);
      auto x = ff.make_classic_provision(ei);
      w.record("make_classic_provision", Entity{Aux::Provision, static_cast<const cf::Initialization_provision*>(x)}, Category_code::Unknown, true)
         .exp("initializer", Val::obj(&ei));
      w.provisions.push_back(x);
      break;
   }
   case 23: {
      auto x = ff.make_parenthesized_provision(ex);
      w.record("make_parenthesized_provision", Entity{Aux::Provision, static_cast<const cf::Initialization_provision*>(x)}, Category_code::Unknown, true)
         .exp("initializer", N(ex));
      w.provisions.push_back(x);
      break;
   }
   case 24: {
      auto x = ff.make_braced_provision();
      Rec& r = w.record("make_braced_provision", Entity{Aux::Provision, static_cast<const cf::Initialization_provision*>(x)}, Category_code::Unknown, true);
      r.exp("elements", Val::list({}));
      r.mutable_container = true;
      w.record("make_braced_provision/as-initializer", Entity{Aux::ElemInit, static_cast<const cf::Elemental_initializer*>(x)}, Category_code::Unknown, false).mutable_container = true;
      w.provisions.push_back(x);
      w.elem_inits.push_back(x);
      w.braceds.push_back(x);
      break;
   }
   case 25: {
      auto x = ff.make_designated_provision();
      Rec& r = w.record("make_designated_provision", Entity{Aux::Provision, static_cast<const cf::Initialization_provision*>(x)}, Category_code::Unknown, true);
      r.exp("elements", Val::list({}));
      r.mutable_container = true;
      w.record("make_designated_provision/as-initializer", Entity{Aux::ElemInit, static_cast<const cf::Elemental_initializer*>(x)}, Category_code::Unknown, false).mutable_container = true;
      w.provisions.push_back(x);
      w.elem_inits.push_back(x);
      w.designateds.push_back(x);
      break;
   }
   case 26: {
      auto x = ff.make_field_designator(id);
      w.record("make_field_designator", Entity{Aux::Designator, static_cast<const cf::Subobject_designator*>(x)}, Category_code::Unknown, true).exp("name", N(id));
      w.designators.push_back(x);
      break;
   }
   default: {
      auto x = ff.make_slot_designator(ex);
      w.record("make_slot_designator", Entity{Aux::Designator, static_cast<const cf::Subobject_designator*>(x)}, Category_code::Unknown, true).exp("index", N(ex));
      w.designators.push_back(x);
      break;
   }
   }
   w.note("form");
}

void op_FORM_FILL(World& w, const Op& op)
{
   switch (op.a % 11) {
   case 0: {
      if (w.polyadics.empty()) break;
      auto x = World::pick(w.polyadics, op.b);
      const Expr* e = World::pick(w.exprs, op.c);
      x->args.push_back(e);
      if (auto r = w.rec_for(static_cast<const cf::Constraint*>(x))) {
         std::vector<Val> xs;
         for (std::size_t i = 0; i < x->trailing_arguments().size(); ++i) xs.push_back(N(*x->trailing_arguments().position(i)));
         r->exp("trailing_arguments", Val::list(xs));
      }
      w.findings.count("member_additions");
      break;
   }
   case 1: {
      if (w.compounds.empty() || w.flags.fill_at_creation) break;
      auto x = World::pick(w.compounds, op.b);
      auto r = w.rec_for(static_cast<const cf::Requirement*>(x));
      if (op.c % 2 && !w.constraints.empty()) {
         auto c = World::pick(w.constraints, op.d);
         x->type = c;
         if (r) r->exp("constraint", Val::obj(c));
      }
      x->has_noexcept = op.e % 2;
      if (r) r->exp("nothrow", U(op.e % 2));
      break;
   }
   case 2: {
      if (w.paren_species.empty() || w.terms.empty() || w.flags.fill_at_creation) break;
      auto x = World::pick(w.paren_species, op.b);
      auto t = World::pick(w.terms, op.c);
      x->declarator = t;
      if (auto r = w.rec_for(static_cast<const cf::Species_declarator*>(x))) r->exp("term", Val::obj(t));
      break;
   }
   case 3: {
      if (w.array_morphisms.empty() || w.flags.fill_at_creation) break;
      auto x = World::pick(w.array_morphisms, op.b);
      auto& e = *World::pick(w.exprs, op.c);
      x->array_bound = &e;
      if (auto r = w.rec_for(static_cast<const cf::Morphism*>(x))) r->exp("bound", N(e));
      break;
   }
   case 4: {
      if (w.term_impls.empty() || w.indirectors.empty()) break;
      auto x = World::pick(w.term_impls, op.b);
      const cf::Indirector* i = World::pick(w.indirectors, op.c);
      x->prefix.push_back(i);
      if (auto r = w.rec_for(static_cast<const cf::Declarator*>(x))) r->exp("indirectors", Val::list(obj_list_of(x->indirectors())));
      w.findings.count("member_additions");
      break;
   }
   case 5: {
      if (w.term_impls.empty() || w.species.empty() || w.flags.fill_at_creation) break;
      auto x = World::pick(w.term_impls, op.b);
      auto sp = World::pick(w.species, op.c);
      x->tail = sp;
      if (auto r = w.rec_for(static_cast<const cf::Declarator*>(x))) r->exp("species", Val::obj(static_cast<const cf::Species_declarator*>(sp)));
      break;
   }
   case 6: {
      if (w.braceds.empty() || w.elem_inits.empty()) break;
      auto x = World::pick(w.braceds, op.b);
      const cf::Elemental_initializer* ei = World::pick(w.elem_inits, op.c);
      if (ei == static_cast<const cf::Elemental_initializer*>(x)) break;   // keep the graph acyclic (S6)
      x->seq.push_back(ei);
      if (auto r = w.rec_for(static_cast<const cf::Initialization_provision*>(x))) r->exp("elements", Val::list(obj_list_of(x->elements())));
      w.findings.count("member_additions");
      break;
   }
   case 7: {
      if (w.designateds.empty() || w.designators.empty() || w.provisions.empty()) break;
      auto x = World::pick(w.designateds, op.b);
      auto& dg = *World::pick(w.designators, op.c);
      auto& pv = *World::pick(w.provisions, op.d);
      if (&pv == static_cast<const cf::Initialization_provision*>(x)) break;
      auto em = x->seq.push_back(dg, pv);
      w.record("Designated_list_provision::seq.push_back", Entity{Aux::Earmarked, static_cast<const cf::Earmarked_initializer*>(em)}, Category_code::Unknown, true)
         .exp("subobject", Val::obj(&dg))
         .exp("initializer", Val::obj(&pv));
      if (auto r = w.rec_for(static_cast<const cf::Initialization_provision*>(x))) r->exp("elements", Val::list(obj_list_of(x->elements())));
      w.findings.count("member_additions");
      break;
   }
   case 8: {
      if (w.species.empty() || w.morphisms.empty()) break;
      const std::size_t k = op.b % w.species.size();
      const cf::Morphism* m = World::pick(w.morphisms, op.c);
      w.species_suffix[k]->push_back(m);
      if (auto r = w.rec_for(static_cast<const cf::Species_declarator*>(w.species[k]))) r->exp("suffix", Val::list(obj_list_of(w.species[k]->suffix())));
      w.findings.count("member_additions");
      break;
   }
   case 9: {
      if (w.fun_morphisms.empty() || w.flags.fill_at_creation) break;
      auto x = World::pick(w.fun_morphisms, op.b);
      auto& e = *World::pick(w.exprs, op.c);
      x->eh_spec = &e;
      x->quals = Qualifiers{op.d % 8u};
      x->ref_qual = Binding_mode{std::uint8_t(op.e % 3)};
      if (auto r = w.rec_for(static_cast<const cf::Morphism*>(x))) r->exp("throws", N(e)).exp("qualifiers", U(op.d % 8u)).exp("binding_mode", U(op.e % 3));
      break;
   }
   default: {
      if (w.attr_hosts.empty() || w.attributes.empty()) break;
      auto& host = World::pick(w.attr_hosts, op.b);
      const Attribute* a = World::pick(w.attributes, op.c);
      host.second->push_back(a);
      if (auto r = w.rec_for(host.first.ptr)) r->exp("attributes", Val::list(obj_list_of(static_cast<const Sequence<Attribute>&>(*host.second))));
      w.findings.count("member_additions");
      break;
   }
   }
   w.note("form-fill");
}

// -------------------------------------------------------------- attributes --
void op_ATTR(World& w, const Op& op)
{
   if (w.tokens.empty()) return;
   auto& t1 = *World::pick(w.tokens, op.b);
   auto& t2 = *World::pick2(w.tokens, op.b, op.c);
   const Attribute* result = nullptr;
   auto make_seq = [&]() -> const Sequence<Attribute>& {
      w.attr_seq_store.emplace_back();
      auto& s = w.attr_seq_store.back();
      const unsigned n = w.attributes.empty() ? 0 : op.e % 4;
      for (unsigned i = 0; i < n; ++i) s.push_back(static_cast<const Attribute*>(World::pick(w.attributes, op.f + i)));
      return s;
   };
   switch (op.a % 7) {
   case 0: {
      auto& a = w.attrs_f.make_basic_attribute(t1);
      w.record("make_basic_attribute", Entity{Aux::Attribute, static_cast<const Attribute*>(&a)}, Category_code::Unknown, true).exp("token", Val::obj(&t1));
      result = &a;
      break;
   }
   case 1: {
      auto& a = w.attrs_f.make_scoped_attribute(t1, t2);
      w.record("make_scoped_attribute", Entity{Aux::Attribute, static_cast<const Attribute*>(&a)}, Category_code::Unknown, true)
         .exp("scope", Val::obj(&t1))
         .exp("member", Val::obj(&t2))
         .exp("first", Val::obj(&t1))
         .exp("second", Val::obj(&t2));
      result = &a;
      break;
   }
   case 2: {
      if (w.attributes.empty()) return;
      auto& inner = *World::pick(w.attributes, op.d);
      auto& a = w.attrs_f.make_labeled_attribute(t1, inner);
      w.record("make_labeled_attribute", Entity{Aux::Attribute, static_cast<const Attribute*>(&a)}, Category_code::Unknown, true)
         .exp("label", Val::obj(&t1))
         .exp("attribute", Val::obj(&inner))
         .exp("first", Val::obj(&t1))
         .exp("second", Val::obj(&inner));
      result = &a;
      break;
   }
   case 3: {
      if (w.attributes.empty()) return;
      auto& fn = *World::pick(w.attributes, op.d);
      auto& seq = make_seq();
      auto& a = w.attrs_f.make_called_attribute(fn, seq);
      w.record("make_called_attribute", Entity{Aux::Attribute, static_cast<const Attribute*>(&a)}, Category_code::Unknown, true)
         .exp("function", Val::obj(&fn))
         .exp("arguments", Val::list(obj_list_of(seq)))
         .exp("first", Val::obj(&fn))
         .exp("second", Val::list(obj_list_of(seq)));
      result = &a;
      break;
   }
   case 4: {
      if (w.attributes.empty()) return;
      auto& inner = *World::pick(w.attributes, op.d);
      auto& a = w.attrs_f.make_expanded_attribute(t1, inner);
      w.record("make_expanded_attribute", Entity{Aux::Attribute, static_cast<const Attribute*>(&a)}, Category_code::Unknown, true)
         .exp("expander", Val::obj(&t1))
         .exp("operand", Val::obj(&inner))
         .exp("first", Val::obj(&t1))
         .exp("second", Val::obj(&inner));
      result = &a;
      break;
   }
   case 5: {
      auto& seq = make_seq();
      auto& a = w.attrs_f.make_factored_attribute(t1, seq);
      w.record("make_factored_attribute", Entity{Aux::Attribute, static_cast<const Attribute*>(&a)}, Category_code::Unknown, true)
         .exp("factor", Val::obj(&t1))
         .exp("terms", Val::list(obj_list_of(seq)))
         .exp("first", Val::obj(&t1))
         .exp("second", Val::list(obj_list_of(seq)));
      result = &a;
      break;
   }
   default: {
      auto& e = *World::pick(w.exprs, op.d);
      auto& a = w.attrs_f.make_elaborated_attribute(e);
      w.record("make_elaborated_attribute", Entity{Aux::Attribute, static_cast<const Attribute*>(&a)}, Category_code::Unknown, true)
         .exp("elaboration", N(e))
         .exp("operand", N(e));
      result = &a;
      break;
   }
   }
   w.attributes.push_back(result);
   w.note("attribute");
}

void op_CAPSPEC(World& w, const Op& op)
{
   const Binding_mode m{std::uint8_t(op.b % 3)};
   const Capture_specification* result = nullptr;
   switch (op.a % 5) {
   case 0: {
      auto& c = w.caps_f.default_capture(m);
      w.record("default_capture", Entity{Aux::CaptureSpec, static_cast<const Capture_specification*>(&c)}, Category_code::Unknown, true).exp("mode", U(op.b % 3));
      result = &c;
      break;
   }
   case 1: {
      auto& c = w.caps_f.implicit_object_capture(m);
      w.record("implicit_object_capture", Entity{Aux::CaptureSpec, static_cast<const Capture_specification*>(&c)}, Category_code::Unknown, true).exp("how", U(op.b % 3));
      result = &c;
      break;
   }
   case 2: {
      if (w.decls.empty()) return;
      const DeclH& h = World::pick(w.decls, op.c);
      if (h.kind > 9 || !h.name) return;
      auto& c = w.caps_f.enclosing_local_capture(*h.decl, m);
      Rec& r = w.record("enclosing_local_capture", Entity{Aux::CaptureSpec, static_cast<const Capture_specification*>(&c)}, Category_code::Unknown, true);
      r.exp("mode", U(op.b % 3)).exp("declaration", N(*h.decl));
      // name() is the declaration's name when that is an identifier, otherwise refused
      if (h.name->category == Category_code::Identifier) r.exp("name", N(*h.name));
      else r.exp("name", Val::throws());
      w.named_capspecs.push_back(&c);
      result = &c;
      break;
   }
   case 3: {
      auto& id = *World::pick(w.idents, op.c);
      auto& e = *World::pick(w.exprs, op.d);
      auto& c = w.caps_f.binding_capture(id, e, m);
      w.record("binding_capture", Entity{Aux::CaptureSpec, static_cast<const Capture_specification*>(&c)}, Category_code::Unknown, true)
         .exp("name", N(id))
         .exp("initializer", N(e))
         .exp("mode", U(op.b % 3));
      w.named_capspecs.push_back(&c);
      result = &c;
      break;
   }
   default: {
      if (w.named_capspecs.empty()) return;
      auto& n = *World::pick(w.named_capspecs, op.c);
      auto& c = w.caps_f.expansion_capture(n);
      w.record("expansion_capture", Entity{Aux::CaptureSpec, static_cast<const Capture_specification*>(&c)}, Category_code::Unknown, true).exp("what", Val::obj(&n));
      result = &c;
      break;
   }
   }
   w.capspecs.push_back(result);
   w.note("capture-specification");
}

// ------------------------------------------------------- units and regions --
void op_NEW_UNIT(World& w, const Op&)
{
   if (w.units.size() >= 4) return;
   w.units.emplace_back(w.L());
   auto& u = w.units.back();
   w.record("impl::Translation_unit", Entity{Aux::Unit, static_cast<const Translation_unit*>(&u)}, Category_code::Unknown, true)
      .exp("global_namespace", N(u.global_namespace()))
      .exp("imported_modules", Val::list({}))
      .mutable_container = true;
   w.add_region(u.global_region(), nullptr, &u.global_namespace(), true, "unit");
   w.add_scope(u.global_region());
   w.add_type(u.global_namespace());
   w.note("new-unit");
}

void op_NEW_MODULE(World& w, const Op&)
{
   if (w.modules.size() >= 3) return;
   w.modules.emplace_back(w.L());
   auto& m = w.modules.back();
   Rec& r = w.record("impl::Module", Entity{Aux::Module, static_cast<const Module*>(&m)}, Category_code::Unknown, true);
   r.exp("interface_unit", Val::obj(static_cast<const Interface_unit*>(&m.iface))).exp("implementation_units", Val::list({})).exp("stems", Val::list({}));
   r.mutable_container = true;
   Rec& ir = w.record("impl::Module::iface", Entity{Aux::Unit, static_cast<const Translation_unit*>(&m.iface)}, Category_code::Unknown, false);
   ir.exp("global_namespace", N(m.iface.global_namespace())).exp("parent_module", Val::obj(static_cast<const Module*>(&m)));
   ir.mutable_container = true;
   w.add_region(m.iface.global_region(), nullptr, &m.iface.global_namespace(), true, "unit");
   w.add_scope(m.iface.global_region());
   w.add_type(m.iface.global_namespace());
   w.note("new-module");
}

void op_MODULE_UNIT(World& w, const Op& op)
{
   if (w.modules.empty()) return;
   auto it = w.modules.begin();
   std::advance(it, op.a % w.modules.size());
   impl::Module& m = *it;
   if (m.implementation_units().size() >= 3) return;
   auto u = m.make_unit();
   Rec& ur = w.record("Module::make_unit", Entity{Aux::Unit, static_cast<const Translation_unit*>(u)}, Category_code::Unknown, true);
   ur.exp("global_namespace", N(u->global_namespace())).exp("parent_module", Val::obj(static_cast<const Module*>(&m))).exp("purview", Val::list({}));
   ur.mutable_container = true;
   if (auto r = w.rec_for(static_cast<const Module*>(&m))) r->exp("implementation_units", Val::list(obj_list_of(m.implementation_units())));
   w.add_region(u->global_region(), nullptr, &u->global_namespace(), true, "unit");
   w.add_scope(u->global_region());
   w.add_type(u->global_namespace());
   w.findings.count("member_additions");
   w.note("module.make_unit");
}

void op_MODULE_FILL(World& w, const Op& op)
{
   if (w.modules.empty()) return;
   auto it = w.modules.begin();
   std::advance(it, op.a % w.modules.size());
   impl::Module& m = *it;
   switch (op.b % 4) {
   case 0: {
      const Identifier* id = World::pick(w.idents, op.c);
      m.stems.components.push_back(id);
      if (auto r = w.rec_for(static_cast<const Module*>(&m))) {
         std::vector<Val> xs;
         for (std::size_t i = 0; i < m.name().stems().size(); ++i) xs.push_back(N(*m.name().stems().position(i)));
         r->exp("stems", Val::list(xs));
      }
      break;
   }
   case 1: {
      auto& u = w.units.front();
      u.imports()->push_back(static_cast<const Module*>(&m));
      break;
   }
   case 2: {
      if (w.decls.empty()) break;
      const Decl* d = World::pick(w.decls, op.c).decl;
      m.iface.decls_exported.push_back(d);
      break;
   }
   default: {
      if (w.decls.empty()) break;
      const Decl* d = World::pick(w.decls, op.c).decl;
      m.iface.owned_decls.push_back(d);
      break;
   }
   }
   w.findings.count("member_additions");
   w.note("module-fill");
}

void op_SUBREGION(World& w, const Op& op)
{
   auto r = World::pick(w.regions, op.a);
   auto s = r->make_subregion();
   w.record_node("Region::make_subregion", *s, Category_code::Region).exp("enclosing", N(*r)).exp("owner", Val::absent()).exp("global", U(0));
   w.add_region(s, r, nullptr, false, "subregion");
   w.add_scope(s);
   w.note("make_subregion");
}

// ----------------------------------------------------------------- harness --
void op_LOCATE(World& w, const Op& op)
{
   if (w.stmts.empty() || w.flags.fill_at_creation || w.flags.no_locate) return;   // stamping a location is a client assignment
   auto& h = World::pick(w.stmts, op.a);
   if (!h.src) return;
   // values whose decimal, octal and hexadecimal renderings differ (>= 8)
   h.src->file = File_index{8u + op.b};
   h.src->line = Line_number{8u + op.c * 7u};
   h.src->column = op.d % 4 ? Column_number{8u + op.d} : Column_number{};
   if (h.unit) {
      h.unit->unit = Unit_index{op.e};
      h.unit->line = Line_number{op.f + 1u};
   }
   if (auto r = w.rec_for(static_cast<const Node*>(h.stmt)))
      r->exp("source_location", Val::list({U(8u + op.b), U(8u + op.c * 7u), U(op.d % 4 ? 8u + op.d : 0u)}));
   {
      std::string t = "F" + std::to_string(8u + op.b) + ":" + std::to_string(8u + op.c * 7u);
      w.stamped_locations.insert(t);
      if (op.d % 4) w.stamped_locations.insert(t + ":" + std::to_string(8u + op.d));
   }
   w.findings.count("located_statements");
   w.note("locate");
}

void op_STMT_ATTR(World& w, const Op& op)
{
   if (w.stmts.empty()) return;
   auto& h = World::pick(w.stmts, op.a);
   if (op.b % 2) {
      if (w.attributes.empty() || !h.attrs) return;
      h.attrs->push_back(static_cast<const Attribute*>(World::pick(w.attributes, op.c)));
      if (auto r = w.rec_for(static_cast<const Node*>(h.stmt))) r->exp("attributes", Val::list(obj_list_of(h.stmt->attributes())));
   }
   else {
      if (w.annotation_store.empty() || !h.notes) return;
      const Annotation* a = &w.annotation_store[op.c % w.annotation_store.size()];
      h.notes->push_back(a);
      if (auto r = w.rec_for(static_cast<const Node*>(h.stmt))) {
         std::vector<Val> xs;
         for (std::size_t i = 0; i < h.stmt->annotation().size(); ++i) xs.push_back(N(*h.stmt->annotation().position(i)));
         r->exp("annotation", Val::list(xs));
      }
   }
   w.findings.count("member_additions");
   w.note("stmt-attribute");
}

void op_JUNK(World& w, const Op& op)
{
   // unrelated heap traffic between ops: shuffles where generative nodes land
   if (w.flags.no_junk) return;
   const std::size_t n = 8u + std::size_t(op.a) * (1u + op.b % 16u);
   if (op.c % 3 == 0 && !w.junk.empty()) w.junk.erase(w.junk.begin() + (op.d % w.junk.size()));
   else if (w.junk_bytes < (8 << 20)) {
      w.junk.emplace_back(new char[n]);
      w.junk.back()[0] = char(op.a);
      w.junk_bytes += long(n);
   }
   w.note("junk");
}

void op_LONGSTR(World& w, const Op& op)
{
   // long words: they roll the 1 MiB string pools over, and the largest take the oversize path
   if (op.a % 16 == 15 && w.counters["small_word_floods"] == 0) {
      // once per history: 70 000 distinct 8-byte words, one string header each, so a 1 MiB pool is filled to its very
      // last header and the next one is started
      w.counters["small_word_floods"] = 1;
      char8_t buf[9] = u8"w0000000";
      const String* first = nullptr;
      for (unsigned i = 0; i < 70000; ++i) {
         unsigned v = i * 2654435761u + op.b;
         for (int k = 1; k < 8; ++k, v /= 36) buf[k] = char8_t(v % 36 < 10 ? u8'0' + v % 36 : u8'a' + (v % 36 - 10));
         buf[1] = char8_t(u8'a' + i % 26); buf[2] = char8_t(u8'a' + i / 26 % 26); buf[3] = char8_t(u8'a' + i / 676 % 26); buf[4] = char8_t(u8'a' + i / 17576 % 26);
         auto& s = w.L().get_string(util::word_view(buf, 8));
         if (!first) first = &s;
      }
      w.counters["long_string_bytes"] += 70000 * 16;
      w.findings.count("small_word_floods");
      w.note("70000 distinct 8-byte words");
      return;
   }
   static const std::size_t base[] = {300, 5000, 70000, 400000, (std::size_t(1) << 20) + 17, 1500, 65535, 20000};
   const std::size_t n = base[op.a % 8] + op.b;
   if (w.counters["long_string_bytes"] + long(n) > (12 << 20)) return;
   w.counters["long_string_bytes"] += long(n);
   std::u8string sp(n, u8'a');
   for (std::size_t i = 0; i < n; ++i) sp[i] = char8_t('a' + (i * (1 + op.c % 7) + op.d) % 26);
   auto& s = w.L().get_string(sp);
   auto again = [&w, sp] { return Entity{Aux::None, static_cast<const Node*>(&w.L().get_string(sp))}; };
   w.unified("get_string", T_STRING, "string|" + bytes(sp), ent(s), Category_code::String, again).exp("characters", Val::bytes(bytes(sp)));
   w.strs.push_back(&s);
   w.findings.count("long_strings");
   w.note("long string of " + std::to_string(n) + " bytes");
}

void op_BULK(World& w, const Op& op)
{
   // many fresh distinct keys into one table, to force rebalancing between a request and its repeat
   const int count = std::min(w.flags.bulk_limit, 16 * (1 + op.b % 40));
   auto& L = w.L();
   const long serial = ++w.counters["bulk_serial"];
   switch (op.a % 6) {
   case 0: {
      const Type* t = World::pick(w.types, op.c);
      for (int i = 0; i < count; ++i) {
         const Type* from = t;
         auto& p = L.get_pointer(*from);
         w.unified("get_pointer", T_POINTER, "pointer|" + P(from), ent(p), Category_code::Pointer, [&L, from] { return ent(L.get_pointer(*from)); }).exp("points_to", N(*from));
         t = &p;
      }
      w.add_type(*t);
      break;
   }
   case 1: {
      auto& et = *World::pick(w.types, op.c);
      for (int i = 0; i < count; ++i) {
         std::u8string sp = u8"b";
         for (char ch : std::to_string(serial * 100000 + i)) sp += char8_t(ch);
         auto& lit = L.get_literal(L.int_type(), sp);
         auto& a = L.get_array(et, lit);
         const Expr* lp = &lit;
         w.unified("get_array", T_ARRAY, "array|" + P(&et) + "|" + P(lp), ent(a), Category_code::Array, [&L, &et, lp] { return ent(L.get_array(et, *lp)); })
            .exp("element_type", N(et))
            .exp("bound", N(lit));
      }
      break;
   }
   case 2:
      for (int i = 0; i < count; ++i) {
         std::u8string sp = u8"bulk_";
         for (char ch : std::to_string(serial * 100000 + i)) sp += char8_t(ch);
         auto& id = L.get_identifier(sp);
         w.unified("get_identifier(word)", T_IDENT, "identifier|" + bytes(sp), ent(id), Category_code::Identifier, [&L, sp] { return ent(L.get_identifier(sp)); });
      }
      break;
   case 3: {
      auto& t = *World::pick(w.types, op.c);
      for (int i = 0; i < count; ++i) {
         std::u8string sp = u8"l";
         for (char ch : std::to_string(serial * 100000 + i)) sp += char8_t(ch);
         auto& s = L.get_string(sp);
         auto& lit = L.get_literal(t, s);
         w.unified("get_literal(String)", T_LITERAL, "literal|" + P(&t) + "|" + P(static_cast<const Node*>(&s)), ent(lit), Category_code::Literal,
                   [&L, &t, &s] { return ent(L.get_literal(t, s)); });
      }
      break;
   }
   case 4: {
      const Type* t = World::pick(w.types, op.c);
      for (int i = 0; i < count; ++i) {
         const Type* from = t;
         auto& p = L.get_reference(*from);
         w.unified("get_reference", T_REFERENCE, "reference|" + P(from), ent(p), Category_code::Reference, [&L, from] { return ent(L.get_reference(*from)); });
         auto& q = L.get_pointer(p);
         const Type* pp = &p;
         w.unified("get_pointer", T_POINTER, "pointer|" + P(pp), ent(q), Category_code::Pointer, [&L, pp] { return ent(L.get_pointer(*pp)); });
         t = &q;
      }
      break;
   }
   default: {
      // products of growing length over a fixed alphabet: exercises the lexicographic comparator
      std::vector<const Type*> elems;
      for (int i = 0; i < std::min(count, 64); ++i) {
         elems.push_back(World::pick(w.types, op.c + unsigned(i) * (op.d + 1u)));
         impl::Warehouse<Type> wh;
         std::string key = "product|";
         for (auto t : elems) {
            wh.push_back(*t);
            key += P(t) + ",";
         }
         auto& p = L.get_product(wh);
         auto copy = elems;
         w.unified("get_product(Warehouse)", T_PRODUCT, key, ent(p), Category_code::Product, [&L, copy] {
            impl::Warehouse<Type> wh2;
            for (auto t : copy) wh2.push_back(*t);
            return ent(L.get_product(wh2));
         });
      }
      break;
   }
   }
   w.findings.count("bulk_insertions", count);
   w.note("bulk " + std::to_string(count));
}

void op_REPEAT(World& w, const Op& op)
{
   // ask again for something asked for earlier, with the very same arguments
   if (w.unified_recs.empty()) return;
   const int idx = w.unified_recs[(op.a + 256u * op.b) % w.unified_recs.size()];
   const std::string factory = w.log[idx].factory;
   const std::string key = w.log[idx].key;
   const int table = w.log[idx].table;
   const Category_code cat = w.log[idx].want_cat;
   auto again = w.log[idx].again;
   if (!again) return;
   Entity e = again();
   w.unified(w.intern_name(factory), table, key, e, cat, again);
   w.note("repeat " + factory);
}

void op_PRINT(World& w, const Op& op)
{
   print_op(w, op);
}

void op_AGAIN(World&, const Op&) { }   // handled by World::exec (it needs the previous op)

}   // namespace

void register_decl_ops(std::vector<OpInfo>& t)
{
#define R(NAME, GROUP) t.push_back({#NAME, &op_##NAME, GROUP})
   R(DECL, G_DECL); R(DECL_FILL, G_FILL); R(ENUMERATOR, G_MEMBER); R(BASE, G_MEMBER); R(CAPTURE, G_MEMBER);
   R(SPREAD, G_DIR); R(SBIND, G_DIR); R(SBIND_PUSH, G_MEMBER); R(USING1, G_DIR); R(USINGN, G_DIR); R(USING_PUSH, G_MEMBER); R(USING_DIR, G_DIR);
   R(PHASED, G_DIR); R(PRAGMA, G_DIR); R(PRAGMA_TOKEN, G_MEMBER);
   R(FORM, G_FORM); R(FORM_FILL, G_FORM); R(ATTR, G_ATTR); R(CAPSPEC, G_ATTR);
   R(NEW_UNIT, G_UNIT); R(NEW_MODULE, G_UNIT); R(MODULE_UNIT, G_UNIT); R(MODULE_FILL, G_UNIT); R(SUBREGION, G_REGION);
   R(LOCATE, G_HARNESS); R(STMT_ATTR, G_MEMBER); R(JUNK, G_HARNESS); R(BULK, G_HARNESS); R(REPEAT, G_HARNESS); R(PRINT, G_HARNESS); R(LONGSTR, G_HARNESS); R(TEMPLATE_FAMILY, G_HARNESS); R(AGAIN, G_HARNESS);
#undef R
}

}   // namespace eng
