# Per-property configuration read by /verif/check: which binaries decide the
# property, how many cases each tier generates, the stated non-triviality rule
# and the assumptions recorded in the evidence.

ENGINE_SOURCES = []   # engine translation units shared by the script-driven properties


def B(name, sources, quick, thorough, variant='asan', engine=False, **kw):
    d = dict(name=name, sources=sources, quick=quick, thorough=thorough, variant=variant, engine=engine)
    d.update(kw)
    return d


SAN = 'ASan+UBSan runtime reports memory errors and undefined behaviour as failures'

PROPS = {
    'C08': dict(
        title='ordered-set utility stays a valid red-black tree',
        binaries=[B('c08', ['props/c08.cxx'],
                    quick=dict(cases=4000, size=100, x=dict(perm=8, alpha=4, seqlen=7, maxkeys=2000)),
                    thorough=dict(cases=20000, size=100, shards=16, budget=1500, x=dict(perm=9, alpha=5, seqlen=8, maxkeys=100000)))],
        rule='case = (flavour owning|intrusive, comparator int|address|lexicographic, key sequence). Enumerated part: every permutation of 1..n '
             '(n<=8 quick, 9 thorough) and every duplicate-bearing sequence over a small alphabet, invariants checked after every insertion; '
             'random part: rapidcheck sequences of 8 shapes (uniform, sorted, reversed, organ-pipe, zig-zag, few-distinct, arithmetic walk, gray code). '
             'Oracle: BST order in the tree\'s own convention, black root, no red-red, equal black height, parent links, reachable==distinct keys==size(), '
             'height<=2*log2(n+1), std::map model for found/not-found and first-inserted-wins. non-trivial = >=3 distinct keys and at least one insertion that '
             'needed a recolouring or rotation (predicted from the pre-insertion tree); distinct = FNV-1a of the replay text.',
        assumptions=['the comparator handed to the tree is a total order (three such orders are generated)',
                     'intrusive flavour: size() asserted only for duplicate-free sequences (chain::insert counts every call by design)', SAN],
        exhaustive_claim=False,
        technique='rapidcheck property-based testing + exhaustive small-scope enumeration against a validity predicate and a std::map model',
        level_text='Exploration: every insertion sequence up to the enumerated bound is checked completely, longer ones by random/adversarial generation; '
                   'a violation outside both is not excluded.',
        level_note='Trusts the harness-side validity predicate, the std::map model, and that reading the protected root through a derived class observes the real tree.',
    ),
}

# Properties not claimed yet (kept current as checks are added).
NOT_APPLICABLE = {pid: 'check under construction in this revision of /verif (see DESIGN.md section 9); not claimed until its binary is registered'
                  for pid in ['C%02d' % i for i in range(1, 21)] if pid not in PROPS}

