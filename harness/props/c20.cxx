// C20 -- Lexicons are isolated: independent instances can be used from different threads.
//
// Built with ThreadSanitizer (library, engine and this file).  A case = a construction script of the "lifetime"
// profile plus three aux bytes: the number of threads (2..8), how the script is assigned to them (every thread runs
// the whole script / a rotation of it / its own slice) and a stagger.  Every thread owns a World (its own Lexicon,
// units, modules), runs its program, offers everything it built to the printer, and takes an address-free digest of
// every node it created.
// Oracles:
//   (1) ThreadSanitizer reports no data race while the threads run (the report hook of the runtime is overridden, so a
//       report is attributed to the case that produced it);
//   (2) each thread's trace (outcome and bytes of every print, structural digest of every node, signatures of every
//       model disagreement) equals the trace of the same program run alone before the threads were started;
//   (3) the node addresses two simultaneously live Lexicons have in common all lie in a mapping of the executable
//       that is not writable (the process-wide constants).
#include "../engine_gen.hpp"
#include "../interp_util.hpp"
#include "../printing.hpp"

#include <atomic>
#include <condition_variable>
#include <fstream>
#include <mutex>
#include <thread>

using namespace eng;

// ------------------------------------------------------------- race reports --
extern "C" int __tsan_get_report_data(void* report, const char** description, int* count, int* stack_count, int* mop_count, int* loc_count, int* mutex_count,
                                      int* thread_count, int* unique_tid_count, void** sleep_trace, unsigned long trace_size);
extern "C" int __tsan_get_report_stack(void* report, unsigned long idx, void** trace, unsigned long trace_size);
extern "C" int __tsan_get_report_mop(void* report, unsigned long idx, int* tid, void** addr, int* size, int* write, int* atomic, void** trace, unsigned long trace_size);
extern "C" void __sanitizer_symbolize_pc(void* pc, const char* fmt, char* out_buf, unsigned long out_buf_size);

extern "C" char __executable_start;
extern "C" char _end;

namespace {
std::atomic<long> g_reports{0};
constexpr int max_kept = 8;
void* g_pcs[max_kept][6];
const char* g_desc[max_kept];
}   // namespace

#if defined(__SANITIZE_THREAD__)
// called by the runtime for every report it prints; no allocation in here
extern "C" void __tsan_on_report(void* report)
{
   const long k = g_reports.fetch_add(1);
   if (k >= max_kept) return;
   const char* desc = nullptr;
   int count = 0, stacks = 0, mops = 0, locs = 0, mutexes = 0, threads = 0, tids = 0;
   void* sleep_trace[1] = {nullptr};
   __tsan_get_report_data(report, &desc, &count, &stacks, &mops, &locs, &mutexes, &threads, &tids, sleep_trace, 1);
   g_desc[k] = desc;
   for (auto& p : g_pcs[k]) p = nullptr;
   if (mops > 0) {
      int tid = 0, size = 0, write = 0, atomic = 0;
      void* addr = nullptr;
      __tsan_get_report_mop(report, 0, &tid, &addr, &size, &write, &atomic, g_pcs[k], 6);
   }
   else if (stacks > 0)
      __tsan_get_report_stack(report, 0, g_pcs[k], 6);
}
#endif

namespace {

std::string frame_name(void* pc)
{
   if (!pc) return "?";
   char buf[512] = {0};
   __sanitizer_symbolize_pc(pc, "%f", buf, sizeof buf);
   std::string s = buf;
   const auto paren = s.find('(');
   if (paren != std::string::npos) s = s.substr(0, paren);
   return s.empty() ? "?" : s;
}

// ------------------------------------------------------------------ programs --
std::vector<Script> assign(const Case& c, int n, int mode, int stagger)
{
   std::vector<Script> out(static_cast<std::size_t>(n));
   const std::size_t len = c.ops.size();
   for (int t = 0; t < n; ++t) {
      Script& s = out[std::size_t(t)];
      switch (mode) {
      case 0: s = c.ops; break;                                          // everybody builds the same program
      case 1:                                                            // rotations of the script
         for (std::size_t i = 0; i < len; ++i) s.push_back(c.ops[(i + std::size_t(t) * (len / std::size_t(n) + std::size_t(stagger))) % len]);
         break;
      default:                                                           // interleaved slices, padded with the common prefix
         for (std::size_t i = 0; i < len; ++i)
            if (int((i + std::size_t(stagger)) % std::size_t(n)) == t || i < len / 4) s.push_back(c.ops[i]);
         break;
      }
   }
   return out;
}

struct Result {
   std::string trace;                 // address-free
   std::vector<const void*> addrs;    // nodes of this world (for the sharing clause)
   long ops_before_first_finish = 0;
   long prints = 0;
};

std::atomic<bool> g_first_done{false};

// Build, print, digest.  `hold` is called with the world still alive (the threads wait there for each other).
template<class Hold>
Result run_program(const std::string& profile_name, const Script& ops, bool concurrent, Hold hold)
{
   Result r;
   vf::Outcome out;
   Flags fl;
   fl.bulk_limit = 64;
   World w(fl, Findings{"C", &out});   // every model disagreement of every property is part of the trace
   const Profile& prof = profile(profile_name);
   for (auto& op : ops) {
      w.exec(op, prof);
      if (concurrent && !g_first_done.load(std::memory_order_relaxed)) ++r.ops_before_first_finish;
   }
   print_sweep(w, 8);
   if (concurrent) g_first_done.store(true, std::memory_order_relaxed);
   std::uint64_t h = 1469598103934665603ull;
   for (auto& p : w.prints) {
      const int st = int(p.result.status);
      h = vf::fnv1a(&st, sizeof st, h);
      h = vf::fnv1a(p.result.text.data(), p.result.text.size(), h);
      ++r.prints;
   }
   std::ostringstream os;
   os << "prints=" << w.prints.size() << ":" << h << " nodes=" << w.log.size() << " digest=" << structural_digest(w, &r.addrs) << " findings=";
   std::vector<std::string> sigs;
   for (auto& f : out.findings) sigs.push_back(f.signature);
   std::sort(sigs.begin(), sigs.end());
   for (auto& s : sigs) os << s << ",";
   r.trace = os.str();
   hold();
   return r;
}

struct Mapping {
   std::uintptr_t lo, hi;
   bool writable;
   bool file_backed;
};

std::vector<Mapping> read_maps()
{
   std::vector<Mapping> m;
   std::ifstream f("/proc/self/maps");
   std::string line;
   while (std::getline(f, line)) {
      unsigned long lo = 0, hi = 0;
      char perms[8] = {0};
      char path[512] = {0};
      if (std::sscanf(line.c_str(), "%lx-%lx %7s %*s %*s %*s %511s", &lo, &hi, perms, path) >= 3) m.push_back({lo, hi, perms[1] == 'w', path[0] == '/'});
   }
   return m;
}

struct Barrier {
   std::mutex m;
   std::condition_variable cv;
   int waiting = 0, generation = 0, n;
   explicit Barrier(int k) : n(k) { }
   void arrive()
   {
      std::unique_lock<std::mutex> lk(m);
      const int gen = generation;
      if (++waiting == n) {
         waiting = 0;
         ++generation;
         cv.notify_all();
      }
      else
         cv.wait(lk, [&] { return gen != generation; });
   }
};

vf::Outcome run_case(const Case& c, const vf::Options&)
{
   vf::Outcome out;
   if (c.ops.empty()) return out;
   const int n = 2 + (c.aux.size() > 0 ? c.aux[0] % 7 : 0);
   const int mode = c.aux.size() > 1 ? c.aux[1] % 3 : 0;
   const int stagger = c.aux.size() > 2 ? c.aux[2] % 5 : 0;
   const auto programs = assign(c, n, mode, stagger);

   // all of them at once -- first, so that whatever the library initialises lazily is still cold when the threads meet it
   // (the first case of a process is the only one that sees a cold library; shard 0 starts with a fixed script that
   // runs every op on every thread)
   const long reports_before = g_reports.load();
   g_first_done.store(false);
   std::vector<Result> together(static_cast<std::size_t>(n));
   Barrier start(n), alive(n), done(n);
   {
      std::vector<std::thread> threads;
      for (int t = 0; t < n; ++t)
         threads.emplace_back([&, t] {
            start.arrive();
            together[std::size_t(t)] = run_program(c.profile, programs[std::size_t(t)], true, [&] {
               alive.arrive();   // every world is still alive here
               done.arrive();
            });
         });
      for (auto& th : threads) th.join();
   }
   const long races = g_reports.load() - reports_before;
   // each program alone, one after the other: the reference traces
   std::vector<Result> alone;
   for (auto& p : programs) alone.push_back(run_program(c.profile, p, false, [] {}));
   if (races > 0) {
      const long k = std::min<long>(reports_before, max_kept - 1);
      const std::string where = frame_name(g_pcs[k][0]);
      std::string stack;
      for (void* pc : g_pcs[k])
         if (pc) stack += frame_name(pc) + " < ";
      out.fail("C20:data-race:" + vf::sanitize(where).substr(0, 60), std::string(g_desc[k] ? g_desc[k] : "report") + " while " + std::to_string(n) + " threads used independent Lexicons: " + stack);
   }
   long busy_threads = 0;
   for (int t = 0; t < n; ++t) {
      if (together[std::size_t(t)].trace != alone[std::size_t(t)].trace)
         out.fail("C20:result-differs-under-concurrency", "thread " + std::to_string(t) + " of " + std::to_string(n) + ": alone '" + alone[std::size_t(t)].trace.substr(0, 160) + "' together '" +
                                                            together[std::size_t(t)].trace.substr(0, 160) + "'");
      if (together[std::size_t(t)].ops_before_first_finish >= 50) ++busy_threads;
      out.count("prints_on_threads", together[std::size_t(t)].prints);
   }
   // (3) what two live Lexicons have in common is immutable
   {
      const auto maps = read_maps();
      std::map<const void*, int> owners;
      for (int t = 0; t < n; ++t) {
         std::set<const void*> mine(together[std::size_t(t)].addrs.begin(), together[std::size_t(t)].addrs.end());
         for (auto p : mine) ++owners[p];
      }
      long common = 0;
      for (auto& [p, k] : owners) {
         if (k < 2) continue;
         ++common;
         const auto a = reinterpret_cast<std::uintptr_t>(p);
         bool readonly_image = false;
         for (auto& m : maps)
            if (a >= m.lo && a < m.hi) readonly_image = !m.writable && m.file_backed;
         // What two Lexicons may share are process-wide objects: anything with static storage duration in the program
         // image.  (Today they all lie in a read-only mapping; a constant that is initialised at start-up would lie in
         // .data/.bss and still be a process-wide constant -- whether anything shared is *written* is ThreadSanitizer's
         // clause.)  A node on the heap is owned by one Lexicon and must not be reachable from another.
         const bool static_storage = a >= reinterpret_cast<std::uintptr_t>(&__executable_start) && a < reinterpret_cast<std::uintptr_t>(&_end);
         if (readonly_image) out.count("shared_nodes_in_read_only_image");
         else if (static_storage) out.count("shared_nodes_in_writable_static_storage");
         else out.fail("C20:shared-heap-node", "a node outside the program image (owned by one Lexicon) is reachable from two live Lexicons");
      }
      out.count("nodes_common_to_live_lexicons", common);
   }
   out.count("threads", n);
   out.count(std::string("assignment_mode_") + (mode == 0 ? "same_program" : (mode == 1 ? "rotations" : "slices")));
   out.classes["max_threads"] = n;
   out.nontrivial = busy_threads >= 2;
   return out;
}

std::string sample(const Case& c)
{
   std::istringstream is(to_text(c));
   std::string line, r;
   int n = 0;
   while (std::getline(is, line) && n++ < 10) r += line + "; ";
   if (c.ops.size() > 9) r += "... (" + std::to_string(c.ops.size()) + " ops)";
   return r;
}

// The first case of shard 0: every op of the profile with a few operand variants, the same program on four threads, on
// a library nothing has touched yet in this process.
void exhaustive(const vf::Options& o, vf::Tally& tally)
{
   if (o.get("zoo", 1) == 0) return;
   Case c;
   c.profile = "lifetime";
   c.aux = {2, 0, 0};   // 4 threads, same program everywhere
   const Profile& p = profile("lifetime");
   const auto& tab = op_table();
   for (int round = 0; round < 2; ++round)
      for (std::size_t k = 0; k < tab.size(); ++k) {
         const int lo = k == 0 ? 0 : p.cumulative[k - 1];
         if (lo >= p.cumulative[k] || std::strcmp(tab[k].name, "BULK") == 0 || std::strcmp(tab[k].name, "LONGSTR") == 0) continue;
         const int variants = std::strcmp(tab[k].name, "FORM") == 0 || std::strcmp(tab[k].name, "BINARY") == 0 ? 24 : (std::strcmp(tab[k].name, "UNARY") == 0 ? 16 : 5);
         for (int v = 0; v < variants; ++v) {
            Op op;
            op.code = std::uint16_t(lo);
            op.a = std::uint8_t(v); op.b = std::uint8_t(v * 7 + round * 3); op.c = std::uint8_t(v * 3 + 1 + round);
            op.d = std::uint8_t(v * 5 + 2 + round); op.e = std::uint8_t(v + round); op.f = std::uint8_t(v * 11 + round);
            c.ops.push_back(op);
         }
      }
   vf::put_current(to_text(c));
   vf::Outcome out = run_case(c, o);
   vf::account(o, tally, to_text(c), "cold start: every op of the lifetime profile x operand variants, the same program on 4 threads (" + std::to_string(c.ops.size()) + " ops)", out);
   tally.notes["cold_start"] = "shard 0 begins with a fixed script that runs every op on 4 threads before anything else has used the library in the process";
}

}   // namespace

int main(int argc, char** argv)
{
   inline_printing().store(true);
   vf::Hooks<Case> hk;
   hk.generator = [](const vf::Options&) { return case_gen("lifetime", 3); };
   hk.exhaustive = exhaustive;
   hk.run = run_case;
   hk.to_text = [](const Case& c) { return to_text(c); };
   hk.from_text = [](const std::string& s, Case& c) { return from_text(s, c); };
   hk.sample = sample;
   return vf::drive<Case>(argc, argv, "C20", hk);
}
