// C08 -- the ordered-set utility stays a valid red-black tree for any insertions.
//
// Domain: insertion sequences into util::rb_tree::container<T> (owning) and
// util::rb_tree::chain<Node> (intrusive), with integer, address and
// lexicographic comparators.  Oracle: validity predicate over the tree after
// insertions (read through the protected `root`, in the tree's own ordering
// convention: comp(data, key) < 0 goes LEFT) plus a std::map reference model
// for membership and first-inserted-wins.
#include "../support.hpp"

#include <ipr/utility>

#include <cmath>
#include <deque>
#include <map>
#include <numeric>

namespace rbt = ipr::util::rb_tree;

namespace {

struct Case {
   int flavor = 0;   // 0 owning container<T>, 1 intrusive chain<Node>
   int cmp = 0;      // 0 int, 1 address, 2 lexicographic, 3 int order through a comparator with a 64-bit result
   std::vector<int> keys;
};

std::ostream& operator<<(std::ostream& os, const Case& c)
{
   os << "flavor=" << c.flavor << " cmp=" << c.cmp << " keys=[";
   for (std::size_t i = 0; i < c.keys.size() && i < 64; ++i) os << (i ? " " : "") << c.keys[i];
   if (c.keys.size() > 64) os << " ...(" << c.keys.size() << ")";
   return os << "]";
}

std::string to_text(const Case& c)
{
   std::ostringstream os;
   os << "C08 flavor " << c.flavor << " cmp " << c.cmp << "\n";
   for (int k : c.keys) os << k << "\n";
   return os.str();
}

bool from_text(const std::string& s, Case& c)
{
   std::istringstream is(s);
   std::string tag, w;
   if (!(is >> tag >> w >> c.flavor >> w >> c.cmp) || tag != "C08") return false;
   c.keys.clear();
   for (int k; is >> k;) c.keys.push_back(k);   // one key per line until end of file, so lines can be dropped freely
   return true;
}

constexpr int key_limit = 1 << 17;

// --- the three total orders over integer key codes ---------------------------
struct Slot {
   char pad;
};
Slot address_arena[key_limit];
inline int scramble(int k) { return int((unsigned(k) * 40503u + 12345u) & unsigned(key_limit - 1)); }   // bijection (odd multiplier)

inline int sgn(long long x) { return x < 0 ? -1 : (x > 0 ? 1 : 0); }

struct Digits {
   int d[12];
   int n = 0;
   const int* begin() const { return d; }
   const int* end() const { return d + n; }
};

// base-3 digits, least significant first, no padding: injective on key codes
Digits digits(int k)
{
   Digits r;
   for (unsigned u = unsigned(k); u != 0; u /= 3) r.d[r.n++] = int(u % 3);
   return r;
}

int order(int cmp, int a, int b)
{
   switch (cmp) {
   case 0:
   case 3: return sgn((long long)a - b);   // 3: the same order, but the tree is given a comparator whose result is a 64-bit difference
   case 1: {
      const Slot* pa = &address_arena[scramble(a)];
      const Slot* pb = &address_arena[scramble(b)];
      std::less<const Slot*> lt;
      return lt(pa, pb) ? -1 : (lt(pb, pa) ? 1 : 0);
   }
   default: {
      auto da = digits(a), db = digits(b);
      return ipr::util::lexicographical_compare()(da.begin(), da.end(), db.begin(), db.end(),
                                                  [](int x, int y) { return sgn((long long)x - y); });
   }
   }
}

// --- payloads ---------------------------------------------------------------
struct Elem {
   int key;
   int serial;
};

struct INode : rbt::link<INode> {
   int key = 0;
   int serial = 0;
};

struct Comp {
   int cmp;
   int operator()(const Elem& d, const Elem& k) const { return order(cmp, d.key, k.key); }
   int operator()(const Elem& d, int k) const { return order(cmp, d.key, k); }
   int operator()(const INode& d, const INode& k) const { return order(cmp, d.key, k.key); }
   int operator()(const INode& d, int k) const { return order(cmp, d.key, k); }
};

// A total order whose three-way result does not fit an int: keys one apart differ by more than 2^32.
inline long long widen(int k) { return (long long)k * 5000000011LL; }
struct WideComp {
   long long operator()(const Elem& d, const Elem& k) const { return widen(d.key) - widen(k.key); }
   long long operator()(const Elem& d, int k) const { return widen(d.key) - widen(k); }
   long long operator()(const INode& d, const INode& k) const { return widen(d.key) - widen(k.key); }
   long long operator()(const INode& d, int k) const { return widen(d.key) - widen(k); }
};

struct Owning : rbt::container<Elem> {
   using N = rbt::node<Elem>;
   N* top() const { return this->root; }
   static int key_of(const N* n) { return n->data.key; }
   static int serial_of(const N* n) { return n->data.serial; }
   // (the container releases its nodes itself when it is destroyed)
};

struct Intrusive : rbt::chain<INode> {
   using N = INode;
   N* top() const { return this->root; }
   static int key_of(const N* n) { return n->key; }
   static int serial_of(const N* n) { return n->serial; }
};

// --- validity predicate -----------------------------------------------------
struct Shape {
   long nodes = 0;
   int height = 0;
   int black_height = -1;
   std::string error;
};

template<class N, class KeyOf>
Shape inspect(N* root, int cmp, KeyOf key_of, long node_limit = 10'000'000)
{
   Shape s;
   if (root == nullptr) return s;
   if (root->parent() != nullptr) s.error = "root-has-parent";
   if (root->color != rbt::Color::Black) s.error = "root-not-black";
   // iterative in-order with explicit stack; tracks depth and black depth
   struct Frame {
      N* n;
      int depth;
      int blacks;
   };
   std::vector<Frame> stack;
   N* cur = root;
   int depth = 0, blacks = 0;
   bool have_prev = false;
   int prev_key = 0;
   while (cur != nullptr || !stack.empty()) {
      while (cur != nullptr) {
         ++depth;
         if (cur->color == rbt::Color::Black) ++blacks;
         stack.push_back({cur, depth, blacks});
         if (cur->left() != nullptr && cur->left()->parent() != cur && s.error.empty()) s.error = "parent-link";
         if (cur->right() != nullptr && cur->right()->parent() != cur && s.error.empty()) s.error = "parent-link";
         if (cur->color == rbt::Color::Red) {
            if ((cur->left() && cur->left()->color == rbt::Color::Red) || (cur->right() && cur->right()->color == rbt::Color::Red))
               if (s.error.empty()) s.error = "red-red";
         }
         cur = cur->left();
         if (depth > 200) {
            s.error = "runaway-depth";
            return s;
         }
      }
      Frame f = stack.back();
      stack.pop_back();
      ++s.nodes;
      s.height = std::max(s.height, f.depth);
      // in-order must be strictly descending in the comparator (left = greater)
      if (have_prev && order(cmp, prev_key, key_of(f.n)) <= 0 && s.error.empty()) s.error = "bst-order";
      prev_key = key_of(f.n);
      have_prev = true;
      // leaves (null children) close a root-to-nil path
      auto close = [&](N* child) {
         if (child != nullptr) return;
         if (s.black_height < 0) s.black_height = f.blacks;
         else if (s.black_height != f.blacks && s.error.empty()) s.error = "black-height";
      };
      close(f.n->left());
      close(f.n->right());
      cur = f.n->right();
      depth = f.depth;
      blacks = f.blacks;
      if (s.nodes > node_limit) {
         s.error = "cycle";
         return s;
      }
   }
   return s;
}

// Which fix-up case will the insertion of `key` start with?  Computed on the
// tree *before* the insertion by walking it with the comparator, as the
// insertion itself will.
template<class N, class KeyOf>
const char* predict_fixup(N* root, int cmp, int key, KeyOf key_of)
{
   if (root == nullptr) return "first";
   N* p = nullptr;
   bool left = false;
   int steps = 0;
   for (N* x = root; x != nullptr;) {
      if (++steps > 400) return "corrupt";   // no search path of a tree with < 2^17 keys is that long: the links form a cycle
      int o = order(cmp, key_of(x), key);
      if (o == 0) return "duplicate";
      p = x;
      left = o < 0;
      x = left ? x->left() : x->right();
   }
   if (p->color == rbt::Color::Black) return "no-fixup";
   N* g = p->parent();
   if (g == nullptr) return "no-fixup";
   const bool p_left = g->left() == p;
   N* uncle = p_left ? g->right() : g->left();
   if (uncle != nullptr && uncle->color == rbt::Color::Red) return p_left ? "recolor-left" : "recolor-right";
   if (p_left) return left ? "single-right" : "double-left-right";
   return left ? "double-right-left" : "single-left";
}

template<class Tree, class Comparator>
void exercise(const Case& c, vf::Outcome& out, Tree& tree, std::deque<INode>* store, const Comparator comp)
{
   using N = typename Tree::N;
   std::map<int, int> model;   // key -> serial of first insertion
   const std::size_t n = c.keys.size();
   const bool check_every = n <= 256;
   bool rotated = false;
   int serial = 0;
   auto validate = [&](const char* when) {
      Shape s = inspect<N>(tree.top(), c.cmp, [](const N* x) { return Tree::key_of(x); }, long(serial) + 8);
      if (!s.error.empty()) {
         out.fail("C08:" + s.error + (c.flavor ? ":intrusive" : ":owning"), std::string(when) + " after " + std::to_string(serial) + " insertions");
         return false;
      }
      if (s.nodes != long(model.size())) {
         out.fail(std::string("C08:node-count") + (c.flavor ? ":intrusive" : ":owning"),
                  "reachable " + std::to_string(s.nodes) + " distinct keys " + std::to_string(model.size()));
         return false;
      }
      const double bound = 2.0 * std::log2(double(s.nodes) + 1.0);
      if (double(s.height) > bound + 1e-9) {
         out.fail(std::string("C08:height") + (c.flavor ? ":intrusive" : ":owning"),
                  "height " + std::to_string(s.height) + " n " + std::to_string(s.nodes));
         return false;
      }
      return true;
   };
   for (std::size_t i = 0; i < n; ++i) {
      const int k = c.keys[i] & (key_limit - 1);
      const char* fx = predict_fixup<N>(tree.top(), c.cmp, k, [](const N* x) { return Tree::key_of(x); });
      if (std::strcmp(fx, "corrupt") == 0) {
         // the descent the insertion is about to make does not end: look at the tree now instead of handing it to insert
         if (validate("before an insertion")) out.fail(std::string("C08:cycle") + (c.flavor ? ":intrusive" : ":owning"), "a search path of more than 400 links");
         return;
      }
      out.count(std::string("fixup_") + fx);
      if (std::strncmp(fx, "single", 6) == 0 || std::strncmp(fx, "double", 6) == 0 || std::strncmp(fx, "recolor", 7) == 0) rotated = true;
      ++serial;
      const bool fresh = model.find(k) == model.end();
      if constexpr (std::is_same_v<Tree, Owning>) {
         const auto before = tree.size();
         Elem* e = tree.insert(Elem{k, serial}, comp);
         if (e == nullptr) {
            out.fail("C08:insert-null:owning", "insert returned null");
            return;
         }
         if (fresh) model[k] = serial;
         if (e->key != k || e->serial != model[k])
            out.fail(fresh ? "C08:insert-result:owning" : "C08:duplicate-not-existing:owning",
                     "key " + std::to_string(k) + " got serial " + std::to_string(e->serial) + " want " + std::to_string(model[k]));
         if (tree.size() != before + (fresh ? 1 : 0))
            out.fail("C08:size:owning", "size " + std::to_string(tree.size()) + " before " + std::to_string(before) + (fresh ? " fresh" : " duplicate"));
      }
      else {
         store->emplace_back();
         INode* z = &store->back();
         z->key = k;
         z->serial = serial;
         INode* r = tree.insert(z, comp);
         if (r != z) out.fail("C08:insert-result:intrusive", "chain::insert did not return its argument");
         if (fresh) model[k] = serial;
      }
      if (check_every || (i % 97) == 96 || i + 1 == n)
         if (!validate("validity")) return;
   }
   if (n == 0 && tree.top() != nullptr) out.fail("C08:nonempty-initial", "fresh tree has a root");
   // owning / distinct-key intrusive: size() == number of distinct keys
   if constexpr (std::is_same_v<Tree, Owning>) {
      if (tree.size() != std::ptrdiff_t(model.size())) out.fail("C08:size:owning", "final size");
   }
   else if (model.size() == n && tree.size() != std::ptrdiff_t(n))
      out.fail("C08:size:intrusive", "distinct keys but size differs");
   // membership: every inserted key is found and maps to the first element; absent keys are not found
   std::size_t probes = 0;
   for (auto& [k, first] : model) {
      if (n > 4096 && (probes++ % 7) != 0) continue;
      if constexpr (std::is_same_v<Tree, Owning>) {
         Elem* e = tree.find(k, comp);
         if (e == nullptr) out.fail("C08:lost-key:owning", "key " + std::to_string(k));
         else if (e->key != k || e->serial != first) out.fail("C08:find-wrong:owning", "key " + std::to_string(k));
      }
      else {
         INode* e = tree.find(k, comp);
         if (e == nullptr) out.fail("C08:lost-key:intrusive", "key " + std::to_string(k));
         else if (e->key != k || e->serial != first) out.fail("C08:find-wrong:intrusive", "key " + std::to_string(k));
      }
   }
   // absent keys: neighbours of every present key plus a stride sweep
   auto absent = [&](int k) {
      k &= key_limit - 1;
      if (model.count(k)) return;
      bool found;
      if constexpr (std::is_same_v<Tree, Owning>) found = tree.find(k, comp) != nullptr;
      else found = tree.find(k, comp) != nullptr;
      if (found) out.fail(std::string("C08:phantom-key") + (c.flavor ? ":intrusive" : ":owning"), "key " + std::to_string(k));
      out.count("absent_probes");
   };
   probes = 0;
   for (auto& [k, first] : model) {
      (void)first;
      if (n > 4096 && (probes++ % 7) != 0) continue;
      absent(k + 1);
      absent(k - 1);
   }
   for (int k = 0; k < 64; ++k) absent(k * 2039 + 7);
   out.nontrivial = rotated && model.size() >= 3;
   out.count("keys", long(n));
   out.count("duplicates", long(n - model.size()));
   out.count(c.flavor ? "flavor_intrusive" : "flavor_owning");
   out.count(c.cmp == 0 ? "cmp_int" : (c.cmp == 1 ? "cmp_address" : (c.cmp == 2 ? "cmp_lexicographic" : "cmp_wide_64bit")));
}

vf::Outcome run_case(const Case& c, const vf::Options&)
{
   vf::Outcome out;
   if (c.flavor == 0) {
      // a tree that failed its invariants is not handed to its destructor (walking a corrupt tree would end the process
      // before the finding is reported); it is deliberately left allocated
      auto* tree = new Owning;
      if (c.cmp == 3) exercise(c, out, *tree, nullptr, WideComp{});
      else exercise(c, out, *tree, nullptr, Comp{c.cmp});
      if (out.findings.empty()) delete tree;
   }
   else {
      std::deque<INode> store;
      Intrusive tree;
      if (c.cmp == 3) exercise(c, out, tree, &store, WideComp{});
      else exercise(c, out, tree, &store, Comp{c.cmp});
   }
   return out;
}

// --- generators ---------------------------------------------------------------
rc::Gen<std::vector<int>> shaped_keys(int max_n)
{
   using namespace rc;
   return gen::mapcat(gen::tuple(vf::in_range<int>(0, 8), gen::inRange<int>(0, max_n + 1), vf::in_range<int>(1, 1 << 16)),
                      [](const std::tuple<int, int, int>& t) -> Gen<std::vector<int>> {
                         const int shape = std::get<0>(t), n = std::get<1>(t), salt = std::get<2>(t);
                         std::vector<int> v(n);
                         switch (shape) {
                         case 0:   // uniform random: leave it to the library so it shrinks element-wise
                            return gen::container<std::vector<int>>(std::size_t(n), vf::in_range<int>(0, key_limit));
                         case 1: std::iota(v.begin(), v.end(), salt); break;                       // sorted
                         case 2: for (int i = 0; i < n; ++i) v[i] = salt + n - i; break;          // reversed
                         case 3: for (int i = 0; i < n; ++i) v[i] = salt + ((i % 2) ? n - i / 2 : i / 2); break;   // organ pipe
                         case 4: for (int i = 0; i < n; ++i) v[i] = salt + ((i % 2) ? i : 2 * n - i); break;       // zig-zag
                         case 5:   // few distinct
                            return gen::container<std::vector<int>>(std::size_t(n), vf::in_range<int>(0, 1 + salt % 7));
                         case 6: for (int i = 0; i < n; ++i) v[i] = (salt * (i + 1)) & (key_limit - 1); break;     // arithmetic walk
                         default: for (int i = 0; i < n; ++i) v[i] = salt + (i ^ (i >> 1)); break;                 // gray code
                         }
                         return gen::just(v);
                      });
}

rc::Gen<Case> generator(const vf::Options& o)
{
   using namespace rc;
   const int max_n = int(o.get("maxkeys", 2000));
   // the size parameter scales the key count; the shapes themselves are size independent
   return gen::map(gen::tuple(vf::in_range<int>(0, 2), vf::in_range<int>(0, 4),
                              gen::withSize([max_n](int size) { return shaped_keys(std::max(1, int((long long)size * max_n / 100))); })),
                   [](const std::tuple<int, int, std::vector<int>>& t) {
                      Case c;
                      c.flavor = std::get<0>(t);
                      c.cmp = std::get<1>(t);
                      c.keys = std::get<2>(t);
                      return c;
                   });
}

std::string sample(const Case& c)
{
   std::ostringstream os;
   os << c;
   return os.str();
}

void exhaustive(const vf::Options& o, vf::Tally& tally)
{
   const int perm_n = int(o.get("perm", 8));
   const int alpha = int(o.get("alpha", 4));
   const int seqlen = int(o.get("seqlen", 7));
   long n_cases = 0;
   for (int flavor = 0; flavor < 2; ++flavor) {
      // all permutations of 1..n
      for (int n = 0; n <= perm_n; ++n) {
         std::vector<int> p(n);
         std::iota(p.begin(), p.end(), 1);
         do {
            for (int cmp = 0; cmp < (n <= 6 ? 4 : 1); ++cmp) {
               Case c{flavor, cmp, p};
               vf::Outcome out = vf::run_enumerated("C08", run_case, c, o, to_text(c));
               vf::account(o, tally, to_text(c), sample(c), out);
               ++n_cases;
            }
         } while (std::next_permutation(p.begin(), p.end()));
      }
      // all sequences (duplicates included) over {0..alpha-1} of length <= seqlen
      for (int len = 1; len <= seqlen; ++len) {
         std::vector<int> s(len, 0);
         for (;;) {
            Case c{flavor, 0, s};
            vf::Outcome out = vf::run_enumerated("C08", run_case, c, o, to_text(c));
            vf::account(o, tally, to_text(c), sample(c), out);
            ++n_cases;
            int i = len - 1;
            while (i >= 0 && ++s[i] == alpha) s[i--] = 0;
            if (i < 0) break;
         }
      }
   }
   tally.notes["exhaustive_part"] = "all permutations of 1..n for n<=" + std::to_string(perm_n) + " (three comparators up to n=6) and all sequences over " +
                                    std::to_string(alpha) + " symbols of length<=" + std::to_string(seqlen) + ", both flavours: " + std::to_string(n_cases) + " cases";
   tally.classes["exhaustive_cases"] = n_cases;
}

vf::Hooks<Case> make_hooks(const vf::Options&)
{
   vf::Hooks<Case> hk;
   hk.generator = generator;
   hk.run = run_case;
   hk.to_text = to_text;
   hk.from_text = from_text;
   hk.sample = sample;
   hk.exhaustive = exhaustive;
   return hk;
}

// libFuzzer mode: flavour byte, comparator byte, then one key per two bytes.  A third leading byte picks the key
// width: narrow keys (8 significant bits) make duplicates and dense runs likely, wide keys spread over the whole range.
bool decode(const std::uint8_t* d, std::size_t n, const vf::Options&, Case& c)
{
   c = Case{};
   if (n < 5) return false;
   c.flavor = d[0] % 2;
   c.cmp = d[1] % 4;
   const unsigned mask = d[2] % 3 == 0 ? 0xffu : (d[2] % 3 == 1 ? 0xfffu : unsigned(key_limit - 1));
   for (std::size_t i = 3; i + 2 <= n; i += 2) c.keys.push_back(int((unsigned(d[i]) | unsigned(d[i + 1]) << 8) & mask));
   return true;
}

}   // namespace

VF_MAIN(Case, "C08", make_hooks, decode)
