// One binary for the properties decided by construction scripts over the
// engine: C01 C02 C04 C05 C06 C07 C09 C12 C14 C15 C16 (selected by --x-prop).
#include "../engine_gen.hpp"
#include "../interp_util.hpp"

using namespace eng;

namespace {

struct Cfg {
   const char* id;
   const char* profile;
};

const Cfg cfgs[] = {{"C01", "types"},   {"C02", "all"}, {"C04", "names"}, {"C05", "stability"}, {"C06", "all"},   {"C07", "scopes"},
                    {"C09", "all"},     {"C12", "regions"}, {"C13", "names"}, {"C14", "all"},   {"C15", "derived"}, {"C16", "substs"}};

std::string g_prop = "C02";
std::string g_profile = "all";

long cls(const vf::Outcome& o, const char* k)
{
   auto it = o.classes.find(k);
   return it == o.classes.end() ? 0 : it->second;
}

long distinct_ops(const vf::Outcome& o, const char* prefix)
{
   long n = 0;
   for (auto& [k, v] : o.classes)
      if (k.rfind(prefix, 0) == 0 && v > 0) ++n;
   return n;
}

vf::Outcome run_case(const Case& c, const vf::Options& o)
{
   vf::Outcome out;
   Flags fl;
   const std::string& p = g_prop;
   if (p == "C05") fl.fill_at_creation = true;
   fl.bulk_limit = int(o.get("bulk", 640));
   World w(fl, Findings{p, &out});
   if (p == "C01" || p == "C02" || p == "C09" || p == "C14" || p == "C15" || p == "C06" || p == "C05") w.counters["nest_qualified"] = 1;
   if (p == "C07" || p == "C04" || p == "C15") w.counters["small_universe"] = 1;   // few names and types: redeclaration and same-name entities are the norm
   const Profile& prof = profile(c.profile);

   if (p == "C05") {
      // every node ever returned is re-observed after later steps; a sequence-valued answer may only have been extended
      Snapshot snap;
      take_snapshot(w, snap, 0);
      std::size_t covered = w.log.size();
      const int every = int(o.get("reobserve", 8));
      long adds_seen = 0;
      for (std::size_t i = 0; i < c.ops.size(); ++i) {
         w.exec(c.ops[i], prof);
         if ((int(i) + 1) % every == 0 || i + 1 == c.ops.size()) {
            const long adds = cls(out, "member_additions");
            oracle_stability(w, snap, adds > adds_seen, "re-observation");
            adds_seen = adds;
            // refresh: later comparisons are made against the current (possibly grown) state
            Snapshot next;
            next.items.reserve(snap.items.size());
            for (auto& it : snap.items) next.items.push_back({it.first, observe(it.first)});
            snap = std::move(next);
            take_snapshot(w, snap, covered);
            covered = w.log.size();
         }
      }
      oracle_fresh_nodes(w);
      out.nontrivial = cls(out, "reobserved") >= 500 && cls(out, "legitimate_growth_seen") >= 1;
      return out;
   }

   if (p == "C14") {
      for (std::size_t i = 0; i < c.ops.size(); ++i) {
         w.exec(c.ops[i], prof);
         if ((i + 1) % 8 == 0) oracle_accessors(w, false);
      }
      oracle_accessors(w, true);
      out.nontrivial = cls(out, "refusals") >= 1 && cls(out, "out_of_range_refused") >= 1 && c.ops.size() >= 4;
      return out;
   }

   w.run(c);

   if (p == "C01") {
      oracle_unification_final(w);
      out.nontrivial = cls(out, "repeat_after_insertions") >= 1 && distinct_ops(out, "op_") >= 3;
      out.count("max_gap", 0);
      out.classes["max_gap_seen"] = std::max(out.classes["max_gap_seen"], w.counters["max_gap"]);
   }
   else if (p == "C04") {
      oracle_unification_final(w);
      oracle_identifier_census(w);
      oracle_value_equality(w);
      out.nontrivial = cls(out, "repeat_after_insertions") >= 1 && cls(out, "census_reserved_spellings_requested") >= 1;
   }
   else if (p == "C02") {
      oracle_readback(w);
      out.count("factories_checked_in_case", w.counters["factories_checked"]);
      for (auto& f : w.factories_used) out.count("factory_" + f);
      out.nontrivial = w.counters["factories_checked"] >= 8 && cls(out, "records_with_2_distinct_operands") >= 1;
   }
   else if (p == "C06") {
      oracle_categories(w);
      if (c.ops.size() % 16 == 3 || c.ops.size() > 1000) oracle_storage_reuse(w);   // a fixed enumeration: once in a while, and always in the zoo
      out.nontrivial = cls(out, "nodes_checked") >= 40;
   }
   else if (p == "C07") {
      oracle_scopes(w);
      out.nontrivial = cls(out, "redeclarations") >= 1 && cls(out, "overloads") >= 1 && cls(out, "failed_lookups") >= 1 && cls(out, "declarations") >= 10;
   }
   else if (p == "C09") {
      oracle_types(w);
      out.nontrivial = cls(out, "rule_group_fixed") >= 1 && cls(out, "rule_group_borrowed") >= 1 && cls(out, "rule_group_given") >= 1 && cls(out, "rule_group_absent") >= 1 &&
                       cls(out, "sequence_types_with_2_members") >= 1;
   }
   else if (p == "C12") {
      oracle_regions(w);
      out.classes["max_region_depth_seen"] = w.counters["max_region_depth"];
      out.nontrivial = w.counters["max_region_depth"] >= 3 && distinct_ops(out, "region_opener_") >= 4;
   }
   else if (p == "C15") {
      oracle_accessors(w, true);   // the sequence helpers (empty/begin/end/position) ride on the protocol probe
      oracle_derived(w);
      out.nontrivial = cls(out, "blocks_with_handlers") >= 1 && cls(out, "blocks_without_handlers") >= 1 && cls(out, "empty_sequences") >= 1 &&
                       cls(out, "many_element_sequences") >= 1 && cls(out, "equal_pairs") >= 1 && cls(out, "unequal_pairs") >= 1;
   }
   else if (p == "C13") {
      oracle_constants(w);
      out.nontrivial = cls(out, "census_reserved_spellings_requested") >= 0 && c.ops.size() >= 3 && cls(out, "constant_checks") >= 26;
   }
   else if (p == "C16") {
      oracle_substitutions(w);
      out.nontrivial = cls(out, "rebindings") >= 1 && cls(out, "queries_outside_domain") >= 1 && cls(out, "queries_inside_domain") >= 1;
   }
   return out;
}

std::string sample(const Case& c)
{
   std::istringstream is(to_text(c));
   std::string line, r;
   int n = 0;
   while (std::getline(is, line) && n++ < 14) r += line + "; ";
   if (c.ops.size() > 13) r += "... (" + std::to_string(c.ops.size()) + " ops)";
   return r;
}

// The zoo: a fixed script that runs every op with many operand variants, so
// that every shipped implementation class gets instances whatever the random
// part produces.  Four rounds, so later rounds find the pools of earlier ones.
Case zoo_case()
{
   Case c;
   c.profile = g_profile;
   const Profile& p = profile(g_profile);
   const auto& tab = op_table();
   for (int round = 0; round < 4; ++round)
      for (std::size_t k = 0; k < tab.size(); ++k) {
         const int lo = k == 0 ? 0 : p.cumulative[k - 1];
         if (lo >= p.cumulative[k]) continue;
         const int variants = std::strcmp(tab[k].name, "FORM") == 0 || std::strcmp(tab[k].name, "BINARY") == 0 ? 40
                              : (std::strcmp(tab[k].name, "UNARY") == 0 ? 26 : (std::strcmp(tab[k].name, "FORM_FILL") == 0 ? 22 : 9));
         for (int v = 0; v < variants; ++v) {
            Op op;
            op.code = std::uint16_t(lo);
            op.a = std::uint8_t(v);
            op.b = std::uint8_t(v * 7 + round * 3);
            op.c = std::uint8_t(v * 3 + 1 + round);
            op.d = std::uint8_t(v * 5 + 2 + round);
            op.e = std::uint8_t(v + round);
            op.f = std::uint8_t(v * 11 + round);
            c.ops.push_back(op);
         }
      }
   return c;
}

void exhaustive(const vf::Options& o, vf::Tally& tally)
{
   if (o.get("zoo", 1) == 0) return;
   Case c = zoo_case();
   account_fixed_script(o, tally, c, "zoo script: every op of the table x operand variants x 4 rounds (" + std::to_string(c.ops.size()) + " ops)", run_case);
   tally.notes["zoo"] = "fixed script running every op with 9-40 operand variants, 4 rounds: " + std::to_string(c.ops.size()) + " ops";
}

void select_property(const vf::Options& o)
{
   auto it = o.extra.find("prop");
   if (it != o.extra.end()) g_prop = it->second;
   for (auto& c : cfgs)
      if (g_prop == c.id) g_profile = c.profile;
}

vf::Hooks<Case> make_hooks(const vf::Options& o)
{
   select_property(o);
   vf::Hooks<Case> hk;
   hk.generator = [](const vf::Options&) { return case_gen(g_profile); };
   hk.run = run_case;
   hk.to_text = [](const Case& c) { return to_text(c); };
   hk.from_text = [](const std::string& s, Case& c) { return from_text(s, c); };
   hk.sample = sample;
   hk.exhaustive = exhaustive;
   return hk;
}
bool decode(const std::uint8_t* d, std::size_t n, const vf::Options&, Case& c) { return script_from_bytes(d, n, g_profile, 0, c); }

}   // namespace

#ifdef VF_FUZZ
extern "C" int LLVMFuzzerTestOneInput(const std::uint8_t* d, std::size_t n)
{
   static std::string prop = [] {   // the property id is an option here (VF_ARGS: --x-prop Cxx)
      std::string p = "C02";
      if (const char* env = std::getenv("VF_ARGS")) {
         std::istringstream is(env);
         std::string line, prev;
         while (std::getline(is, line)) {
            if (prev == "--x-prop") p = line;
            prev = line;
         }
      }
      return p;
   }();
   return vf::fuzz_one<Case>(d, n, prop.c_str(), make_hooks, decode);
}
#else
int main(int argc, char** argv)
{
   const vf::Options o0 = vf::parse_options(argc, argv, "C02");
   select_property(o0);
   static std::string prop = g_prop;
   return vf::drive<Case>(argc, argv, prop.c_str(), make_hooks(o0));
}
#endif
