// C19 -- destroying a Lexicon frees all its memory; live use never touches dead storage.
//
// Two builds of this file decide the property:
//   plain  (no sanitizer, global operator new/delete replaced by counting ones): the number and the bytes of live
//          allocations just before a world (Lexicon, units, modules, free-standing factories, harness pools) is built
//          equal the numbers just after it is destroyed -- exact, and it attributes a leak to the history that made it;
//   asan   (ASan+UBSan): the same histories with every byte the library reads or writes checked against live objects,
//          many Lexicons per process, plus LeakSanitizer's recoverable check after each destruction as an independent
//          cross-check (the first report taints the process, so it is made once per shard).
// Domain: construction scripts from the "lifetime" profile (every factory family, declarations, REPEAT, BULK, string
// pool roll-over through long spellings, printing), each followed by a print sweep, then destruction in the order the
// language prescribes (units and modules before their Lexicon).
#include "../engine_gen.hpp"
#include "../interp_util.hpp"
#include "../printing.hpp"

#include <atomic>
#include <cstdlib>
#include <new>

#if defined(__has_feature)
#if __has_feature(address_sanitizer)
#define C19_CLANG_ASAN 1
#endif
#endif
#if defined(__SANITIZE_ADDRESS__) || defined(C19_CLANG_ASAN)
#include <sanitizer/lsan_interface.h>
#define C19_ASAN 1
#else
#define C19_ASAN 0
#endif

using namespace eng;

#if !C19_ASAN
// ---------------------------------------------------------- counting allocator --
namespace {
std::atomic<long> g_live_blocks{0};
std::atomic<long> g_live_bytes{0};
std::atomic<long> g_total_blocks{0};
constexpr std::size_t header = 16;   // keeps max_align_t alignment

void* counted_alloc(std::size_t n)
{
   void* p = std::malloc(n + header);
   if (!p) throw std::bad_alloc();
   *static_cast<std::size_t*>(p) = n;
   g_live_blocks.fetch_add(1, std::memory_order_relaxed);
   g_total_blocks.fetch_add(1, std::memory_order_relaxed);
   g_live_bytes.fetch_add(long(n), std::memory_order_relaxed);
   return static_cast<char*>(p) + header;
}
void counted_free(void* q) noexcept
{
   if (!q) return;
   void* p = static_cast<char*>(q) - header;
   g_live_blocks.fetch_sub(1, std::memory_order_relaxed);
   g_live_bytes.fetch_sub(long(*static_cast<std::size_t*>(p)), std::memory_order_relaxed);
   std::free(p);
}
}   // namespace

void* operator new(std::size_t n) { return counted_alloc(n); }
void* operator new[](std::size_t n) { return counted_alloc(n); }
void* operator new(std::size_t n, const std::nothrow_t&) noexcept
{
   try { return counted_alloc(n); } catch (...) { return nullptr; }
}
void* operator new[](std::size_t n, const std::nothrow_t&) noexcept
{
   try { return counted_alloc(n); } catch (...) { return nullptr; }
}
void operator delete(void* p) noexcept { counted_free(p); }
void operator delete[](void* p) noexcept { counted_free(p); }
void operator delete(void* p, std::size_t) noexcept { counted_free(p); }
void operator delete[](void* p, std::size_t) noexcept { counted_free(p); }
// (no over-aligned type is allocated by the library or the harness: the aligned forms are left alone)
#endif

namespace {

struct Census {
   long tables = 0, nodes = 0, overload_scopes = 0;
   bool rollover = false;
};

// what a history must have touched to count as non-trivial
Census census(World& w, const vf::Outcome& o)
{
   Census c;
   for (long n : w.table_inserts) c.tables += n > 0;
   c.nodes = long(w.log.size());
   auto it = o.classes.find("overloads");
   c.overload_scopes = it == o.classes.end() ? 0 : it->second;
   c.rollover = w.counters["long_string_bytes"] >= (1 << 20);
   return c;
}

void build_and_destroy(const Case& c, const Findings& f, Census* cen, const vf::Outcome* o)
{
   Flags fl;
   fl.bulk_limit = 640;
   World w(fl, f);
   w.counters["nest_qualified"] = 1;
   w.run(c);
   print_sweep(w, 12);
#if C19_ASAN
   // "no operation on a live Lexicon reads or writes memory outside live objects": every accessor of everything built, and
   // every sequence indexed at, just beyond and far beyond its size (the answers are C14's business; here only ASan/UBSan judge)
   if (cen) oracle_accessors(w, true);
#endif
   if (cen && o) *cen = census(w, *o);
   // ~World: modules, units, then the free-standing factories and the Lexicon
}

vf::Outcome run_case(const Case& c, const vf::Options& o)
{
   vf::Outcome out;
   Census cen;
   // pass 1 (not measured): classification, and every lazily initialised harness static gets initialised
   build_and_destroy(c, Findings{"C19", &out}, &cen, &out);
#if !C19_ASAN
   // pass 2 (measured): nothing outlives the world but what the library fails to release
   const long blocks_before = g_live_blocks.load(), bytes_before = g_live_bytes.load(), total_before = g_total_blocks.load();
   build_and_destroy(c, Findings{"none", nullptr}, nullptr, nullptr);
   const long leaked_blocks = g_live_blocks.load() - blocks_before, leaked_bytes = g_live_bytes.load() - bytes_before;
   out.count("allocations_in_measured_window", g_total_blocks.load() - total_before);
   if (leaked_blocks != 0 || leaked_bytes != 0)
      out.fail("C19:leaked-allocations", std::to_string(leaked_blocks) + " allocation(s), " + std::to_string(leaked_bytes) +
                                             " byte(s) made on behalf of the Lexicon, its units and modules were not returned when they were destroyed");
   out.classes["max_leaked_blocks"] = leaked_blocks;
#else
   // a second and a third Lexicon in the same process: stale references between instances would trip ASan
   build_and_destroy(c, Findings{"none", nullptr}, nullptr, nullptr);
   static bool lsan_done = false;
   if (!lsan_done && o.get("lsan", 1) != 0 && (cen.nodes >= 40 || !o.replay.empty())) {
      lsan_done = true;   // one check per process: the first report taints every later one
      if (__lsan_do_recoverable_leak_check() != 0) out.fail("C19:lsan-leak", "LeakSanitizer reports unreachable allocations after a Lexicon was destroyed");
      out.count("lsan_checks");
   }
#endif
   (void)o;
   out.count("unification_tables_populated", cen.tables);
   out.classes["max_nodes_in_a_history"] = cen.nodes;
   if (cen.rollover) out.count("string_pool_rollovers");
   out.nontrivial = cen.tables >= 10 && (cen.overload_scopes >= 1 || cen.nodes >= 200) && (cen.rollover || cen.nodes >= 100);
   return out;
}

std::string sample(const Case& c)
{
   std::istringstream is(to_text(c));
   std::string line, r;
   int n = 0;
   while (std::getline(is, line) && n++ < 14) r += line + "; ";
   if (c.ops.size() > 13) r += "... (" + std::to_string(c.ops.size()) + " ops)";
   return r;
}

void exhaustive(const vf::Options& o, vf::Tally& tally)
{
   if (o.get("zoo", 1) == 0) return;
   Case c;
   c.profile = "lifetime";
   const Profile& p = profile("lifetime");
   const auto& tab = op_table();
   for (int round = 0; round < 3; ++round)
      for (std::size_t k = 0; k < tab.size(); ++k) {
         const int lo = k == 0 ? 0 : p.cumulative[k - 1];
         if (lo >= p.cumulative[k] || std::strcmp(tab[k].name, "PRINT") == 0) continue;
         const int variants = std::strcmp(tab[k].name, "FORM") == 0 || std::strcmp(tab[k].name, "BINARY") == 0 ? 40 : (std::strcmp(tab[k].name, "UNARY") == 0 ? 26 : 8);
         for (int v = 0; v < variants; ++v) {
            Op op;
            op.code = std::uint16_t(lo);
            op.a = std::uint8_t(v); op.b = std::uint8_t(v * 7 + round * 3); op.c = std::uint8_t(v * 3 + 1 + round);
            op.d = std::uint8_t(v * 5 + 2 + round); op.e = std::uint8_t(v + round); op.f = std::uint8_t(v * 11 + round);
            c.ops.push_back(op);
         }
      }
   account_fixed_script(o, tally, c, "zoo script of the lifetime profile: every op x operand variants x 3 rounds (" + std::to_string(c.ops.size()) + " ops)", run_case, 150);
}

vf::Hooks<Case> make_hooks(const vf::Options&)
{
   vf::Hooks<Case> hk;
   hk.generator = [](const vf::Options&) { return case_gen("lifetime"); };
   hk.run = run_case;
   hk.to_text = [](const Case& c) { return to_text(c); };
   hk.from_text = [](const std::string& s, Case& c) { return from_text(s, c); };
   hk.sample = sample;
   hk.exhaustive = exhaustive;
   return hk;
}
bool decode(const std::uint8_t* d, std::size_t n, const vf::Options&, Case& c) { return script_from_bytes(d, n, "lifetime", 0, c); }

}   // namespace

VF_MAIN(Case, "C19", make_hooks, decode)
