// C10 -- specifier and qualifier sets are a Boolean algebra with exact decomposition.
//
// Enumerated part: all 2^18 subsets of the basic specifiers and all 2^3 subsets
// of the basic qualifiers (union of the singletons, then decompose), the named
// accessors, the refusal of every reserved word that is not basic.  Random part
// (rapidcheck): pairs of subsets for | & ^ implies and the compound
// assignments, and generated non-basic logograms, on several Lexicon instances.
// The model is a std::set of spellings; bit positions are never assumed.
#include "../support.hpp"

#include <ipr/impl>

#include <bitset>

using namespace ipr;

namespace {

// the 18 basic specifiers and the 3 basic qualifiers, as the interface comments spell them
const char8_t* const spec_names[] = {u8"export",  u8"static",   u8"extern", u8"mutable", u8"thread_local", u8"register", u8"inline",    u8"constexpr", u8"consteval",
                                     u8"virtual", u8"=0",       u8"explicit", u8"friend",  u8"typedef",      u8"public",   u8"protected", u8"private",   u8"constinit"};
constexpr int n_spec = 18;
const char8_t* const qual_names[] = {u8"const", u8"volatile", u8"restrict"};
constexpr int n_qual = 3;

const char8_t* const other_reserved[] = {u8"...",  u8"C",      u8"C++",  u8"auto",   u8"bool",   u8"char",     u8"char16_t", u8"char32_t", u8"char8_t",
                                         u8"class", u8"default", u8"delete", u8"double", u8"enum",  u8"false",    u8"float",    u8"int",      u8"long",
                                         u8"long double", u8"long long", u8"namespace", u8"nullptr", u8"short", u8"signed char", u8"this", u8"true", u8"typename",
                                         u8"union", u8"unsigned char", u8"unsigned int", u8"unsigned long", u8"unsigned long long", u8"unsigned short", u8"void", u8"wchar_t"};

std::string str(const char8_t* s) { return std::string(reinterpret_cast<const char*>(s)); }
std::string spelled(const Logogram& l)
{
   auto w = l.what().characters();
   return std::string(reinterpret_cast<const char*>(w.data()), w.size());
}

struct Case {
   std::uint32_t a = 0, b = 0;   // two subsets of the 18 specifiers (bit i <-> spec_names[i], a harness-side numbering)
   std::uint8_t qa = 0, qb = 0;  // two subsets of the qualifiers
   std::vector<std::uint8_t> word;   // a generated spelling for the refusal clause
};

std::string to_text(const Case& c)
{
   std::ostringstream os;
   os << "C10\na " << c.a << "\nb " << c.b << "\nqa " << int(c.qa) << "\nqb " << int(c.qb) << "\n";
   for (auto ch : c.word) os << "w " << int(ch) << "\n";
   return os.str();
}

bool from_text(const std::string& s, Case& c)
{
   std::istringstream is(s);
   std::string tag;
   if (!(is >> tag) || tag != "C10") return false;
   c = Case{};
   unsigned long v;
   while (is >> tag >> v) {
      if (tag == "a") c.a = std::uint32_t(v);
      else if (tag == "b") c.b = std::uint32_t(v);
      else if (tag == "qa") c.qa = std::uint8_t(v);
      else if (tag == "qb") c.qb = std::uint8_t(v);
      else if (tag == "w") c.word.push_back(std::uint8_t(v));
   }
   return true;
}
std::ostream& operator<<(std::ostream& os, const Case& c) { return os << to_text(c); }
std::string sample(const Case& c)
{
   std::ostringstream os;
   os << "A=" << std::bitset<18>(c.a) << " B=" << std::bitset<18>(c.b) << " qA=" << int(c.qa % 8) << " qB=" << int(c.qb % 8) << " word-bytes=" << c.word.size();
   return os.str();
}

struct Lex {
   impl::Lexicon L;
   Specifiers single[n_spec];
   Qualifiers qsingle[n_qual];
   bool ok = true;
   explicit Lex(vf::Outcome* out)
   {
      for (int i = 0; i < n_spec; ++i) {
         try {
            single[i] = L.specifiers(Basic_specifier{L.get_logogram(L.get_string(spec_names[i]))});
         }
         catch (...) {
            ok = false;
            if (out) out->fail("C10:basic-refused:" + str(spec_names[i]), "a basic specifier name is refused");
            single[i] = Specifiers{};
         }
      }
      for (int i = 0; i < n_qual; ++i) {
         try {
            qsingle[i] = L.qualifiers(Basic_qualifier{L.get_logogram(L.get_string(qual_names[i]))});
         }
         catch (...) {
            ok = false;
            if (out) out->fail("C10:basic-refused:" + str(qual_names[i]), "a basic qualifier name is refused");
            qsingle[i] = Qualifiers{};
         }
      }
   }
   Specifiers of(std::uint32_t mask) const
   {
      Specifiers s{};
      for (int i = 0; i < n_spec; ++i)
         if (mask >> i & 1) s |= single[i];
      return s;
   }
   Qualifiers qof(unsigned mask) const
   {
      Qualifiers q{};
      for (int i = 0; i < n_qual; ++i)
         if (mask >> i & 1) q |= qsingle[i];
      return q;
   }
   // decomposition as a harness-side mask; reports repeats and inventions
   bool mask_of(Specifiers s, std::uint32_t& mask, std::string& why) const
   {
      mask = 0;
      std::vector<Basic_specifier> parts;
      try {
         parts = L.decompose(s);
      }
      catch (const std::exception& e) {
         why = std::string("refused: decomposing a union of basic specifiers raised ") + e.what();
         return false;
      }
      for (auto& b : parts) {
         const std::string sp = spelled(b.logogram());
         int k = -1;
         for (int i = 0; i < n_spec; ++i)
            if (sp == str(spec_names[i])) k = i;
         if (k < 0) {
            why = "invented " + sp;
            return false;
         }
         if (mask >> k & 1) {
            why = "repeated " + sp;
            return false;
         }
         mask |= 1u << k;
      }
      return true;
   }
   bool qmask_of(Qualifiers q, unsigned& mask, std::string& why) const
   {
      mask = 0;
      std::vector<Basic_qualifier> parts;
      try {
         parts = L.decompose(q);
      }
      catch (const std::exception& e) {
         why = std::string("refused: decomposing a union of basic qualifiers raised ") + e.what();
         return false;
      }
      for (auto& b : parts) {
         const std::string sp = spelled(b.logogram());
         int k = -1;
         for (int i = 0; i < n_qual; ++i)
            if (sp == str(qual_names[i])) k = i;
         if (k < 0) {
            why = "invented " + sp;
            return false;
         }
         if (mask >> k & 1) {
            why = "repeated " + sp;
            return false;
         }
         mask |= 1u << k;
      }
      return true;
   }
};

void check_singletons(Lex& x, vf::Outcome& out)
{
   auto& L = x.L;
   for (int i = 0; i < n_spec; ++i) {
      const auto v = util::rep(x.single[i]);
      if (v == 0) out.fail("C10:singleton-empty:" + str(spec_names[i]), "maps to the empty set");
      if (v & (v - 1)) out.fail("C10:singleton-not-single:" + str(spec_names[i]), "maps to a set with several elements");
      for (int j = 0; j < i; ++j)
         if (x.single[i] == x.single[j]) out.fail("C10:singletons-collide:" + str(spec_names[i]), "same set as " + str(spec_names[j]));
   }
   for (int i = 0; i < n_qual; ++i) {
      const auto v = util::rep(x.qsingle[i]);
      if (v == 0) out.fail("C10:singleton-empty:" + str(qual_names[i]), "maps to the empty set");
      if (v & (v - 1)) out.fail("C10:singleton-not-single:" + str(qual_names[i]), "maps to a set with several elements");
      for (int j = 0; j < i; ++j)
         if (x.qsingle[i] == x.qsingle[j]) out.fail("C10:singletons-collide:" + str(qual_names[i]), "same set as " + str(qual_names[j]));
   }
   // the named accessors equal the mapping of their own name
   struct {
      const char8_t* name;
      Specifiers v;
   } acc[] = {{u8"export", L.export_specifier()},       {u8"static", L.static_specifier()},     {u8"extern", L.extern_specifier()},
              {u8"mutable", L.mutable_specifier()},     {u8"thread_local", L.thread_local_specifier()}, {u8"register", L.register_specifier()},
              {u8"inline", L.inline_specifier()},       {u8"constexpr", L.constexpr_specifier()}, {u8"consteval", L.consteval_specifier()},
              {u8"virtual", L.virtual_specifier()},     {u8"=0", L.abstract_specifier()},       {u8"explicit", L.explicit_specifier()},
              {u8"friend", L.friend_specifier()},       {u8"typedef", L.typedef_specifier()},   {u8"public", L.public_specifier()},
              {u8"protected", L.protected_specifier()}, {u8"private", L.private_specifier()}};
   for (auto& a : acc)
      for (int i = 0; i < n_spec; ++i)
         if (str(a.name) == str(spec_names[i]) && !(a.v == x.single[i])) out.fail("C10:accessor:" + str(a.name), "the named accessor differs from specifiers(" + str(a.name) + ")");
   if (!(L.const_qualifier() == x.qsingle[0])) out.fail("C10:accessor:const", "const_qualifier() differs from qualifiers(const)");
   if (!(L.volatile_qualifier() == x.qsingle[1])) out.fail("C10:accessor:volatile", "volatile_qualifier() differs from qualifiers(volatile)");
   if (!(L.restrict_qualifier() == x.qsingle[2])) out.fail("C10:accessor:restrict", "restrict_qualifier() differs from qualifiers(restrict)");
}

// An unknown name is refused every time it is asked, also twice in a row (a refusal must not leave anything behind
// that answers the next request).
bool refused_spec(impl::Lexicon& L, const Logogram& l)
{
   for (int again = 0; again < 2; ++again) {
      try {
         (void)L.specifiers(Basic_specifier{l});
         return false;
      }
      catch (...) {
      }
   }
   return true;
}
bool refused_qual(impl::Lexicon& L, const Logogram& l)
{
   for (int again = 0; again < 2; ++again) {
      try {
         (void)L.qualifiers(Basic_qualifier{l});
         return false;
      }
      catch (...) {
      }
   }
   return true;
}

vf::Outcome run_case(const Case& c, const vf::Options&)
{
   vf::Outcome out;
   Lex x(&out);
   Lex y(nullptr);   // a second instance alive at the same time
   check_singletons(x, out);
   for (int i = 0; i < n_spec; ++i)
      if (!(x.single[i] == y.single[i])) out.fail("C10:instances-differ:" + str(spec_names[i]), "two Lexicon instances map the name differently");
   const std::uint32_t A = c.a & 0x3ffff, B = c.b & 0x3ffff;
   const Specifiers a = x.of(A), b = x.of(B);
   std::uint32_t m;
   std::string why;
   auto expect = [&](const char* op, Specifiers v, std::uint32_t want) {
      if (!x.mask_of(v, m, why)) out.fail(std::string("C10:decompose:") + op, why);
      else if (m != want) out.fail(std::string("C10:algebra:") + op, "expected " + std::bitset<18>(want).to_string() + " got " + std::bitset<18>(m).to_string());
   };
   expect("union", a | b, A | B);
   expect("intersection", a & b, A & B);
   expect("symmetric-difference", a ^ b, A ^ B);
   {
      Specifiers t = a;
      t |= b;
      expect("union-assign", t, A | B);
      t = a;
      t &= b;
      expect("intersection-assign", t, A & B);
      t = a;
      t ^= b;
      expect("symmetric-difference-assign", t, A ^ B);
   }
   if (implies(a, b) != ((A & B) == B)) out.fail("C10:algebra:implies", "implies(a, b) is not 'b is a subset of a'");
   if (!implies(a, a & b) || !implies(a | b, a)) out.fail("C10:algebra:implies", "implies is not reflexive on subsets");
   // qualifiers
   const unsigned QA = c.qa % 8u, QB = c.qb % 8u;
   const Qualifiers qa = x.qof(QA), qb = x.qof(QB);
   unsigned qm;
   auto qexpect = [&](const char* op, Qualifiers v, unsigned want) {
      if (!x.qmask_of(v, qm, why)) out.fail(std::string("C10:decompose:qualifier-") + op, why);
      else if (qm != want) out.fail(std::string("C10:algebra:qualifier-") + op, "expected " + std::to_string(want) + " got " + std::to_string(qm));
   };
   qexpect("union", qa | qb, QA | QB);
   qexpect("intersection", qa & qb, QA & QB);
   qexpect("symmetric-difference", qa ^ qb, QA ^ QB);
   if (implies(qa, qb) != ((QA & QB) == QB)) out.fail("C10:algebra:qualifier-implies", "implies on qualifiers");
   // an unknown name is refused rather than answered
   std::u8string w(c.word.begin(), c.word.end());
   bool basic = false;
   for (int i = 0; i < n_spec; ++i) basic = basic || str(spec_names[i]) == std::string(w.begin(), w.end());
   bool qbasic = false;
   for (int i = 0; i < n_qual; ++i) qbasic = qbasic || str(qual_names[i]) == std::string(w.begin(), w.end());
   auto& logo = x.L.get_logogram(x.L.get_string(w));
   if (!basic && !refused_spec(x.L, logo)) out.fail("C10:unknown-answered:specifier", "specifiers(<a non-basic logogram>) was answered");
   if (!qbasic && !refused_qual(x.L, logo)) out.fail("C10:unknown-answered:qualifier", "qualifiers(<a non-basic logogram>) was answered");
   // a qualifier name is not a specifier and vice versa
   for (int i = 0; i < n_qual; ++i)
      if (!refused_spec(x.L, x.L.get_logogram(x.L.get_string(qual_names[i])))) out.fail("C10:unknown-answered:specifier", "a qualifier name was accepted as a specifier");
   out.nontrivial = A != 0 && B != 0 && A != B;
   out.count(std::string("popcount_a_") + std::to_string(std::min(9, int(std::bitset<18>(A).count()) / 2 * 2)));
   return out;
}

rc::Gen<Case> generator(const vf::Options&)
{
   using namespace rc;
   return gen::map(gen::tuple(vf::in_range<int>(0, 1 << 18), vf::in_range<int>(0, 1 << 18), vf::byte(), vf::byte(), gen::container<std::vector<std::uint8_t>>(vf::byte()),
                              vf::in_range<int>(0, 8)),
                   [](const std::tuple<int, int, std::uint8_t, std::uint8_t, std::vector<std::uint8_t>, int>& t) {
                      Case c;
                      c.a = std::uint32_t(std::get<0>(t));
                      c.b = std::uint32_t(std::get<1>(t));
                      switch (std::get<5>(t)) {   // related pairs are the interesting ones for the algebra
                      case 0: c.b = c.a; break;
                      case 1: c.b = c.a & c.b; break;
                      case 2: c.b = c.a | c.b; break;
                      case 3: c.b = ~c.a & 0x3ffff; break;
                      default: break;
                      }
                      c.qa = std::get<2>(t);
                      c.qb = std::get<3>(t);
                      c.word = std::get<4>(t);
                      if (c.word.size() > 24) c.word.resize(24);
                      return c;
                   });
}

void exhaustive(const vf::Options& o, vf::Tally& tally)
{
   vf::Outcome out;
   Lex x(&out);
   check_singletons(x, out);
   long n = 0, lost = 0;
   // every subset of the 18 basic specifiers: decompose(union of the singletons) is exactly the subset
   const std::uint32_t limit = std::uint32_t(o.get("subsets", 1 << 18));
   for (std::uint32_t S = 0; S < limit; ++S) {
      std::uint32_t m;
      std::string why;
      if (!x.mask_of(x.of(S), m, why)) {
         out.fail("C10:decompose:" + why.substr(0, why.find(' ')), "subset " + std::bitset<18>(S).to_string() + ": " + why);
         ++lost;
      }
      else if (m != S) {
         out.fail((m & ~S) ? "C10:decompose:invented" : "C10:decompose:lost", "subset " + std::bitset<18>(S).to_string() + " decomposed to " + std::bitset<18>(m).to_string());
         ++lost;
      }
      ++n;
      if (lost > 8) break;
   }
   for (unsigned Q = 0; Q < 8; ++Q) {
      unsigned m;
      std::string why;
      if (!x.qmask_of(x.qof(Q), m, why)) out.fail("C10:decompose:qualifier", "subset " + std::to_string(Q) + ": " + why);
      else if (m != Q) out.fail("C10:decompose:qualifier", "subset " + std::to_string(Q) + " decomposed to " + std::to_string(m));
      ++n;
   }
   // every reserved word that is not basic is refused, in both roles
   for (auto w : other_reserved) {
      auto& logo = x.L.get_logogram(x.L.get_string(w));
      if (!refused_spec(x.L, logo)) out.fail("C10:unknown-answered:specifier", "specifiers(" + str(w) + ") was answered");
      if (!refused_qual(x.L, logo)) out.fail("C10:unknown-answered:qualifier", "qualifiers(" + str(w) + ") was answered");
      ++n;
   }
   for (int i = 0; i < n_spec; ++i)
      if (!refused_qual(x.L, x.L.get_logogram(x.L.get_string(spec_names[i])))) out.fail("C10:unknown-answered:qualifier", "a specifier name was accepted as a qualifier");
   // one accounting entry for the enumeration; every subset counts as one evaluated, distinct, non-trivial case
   Case rep;
   rep.a = limit - 1;
   out.nontrivial = true;
   vf::account(o, tally, to_text(rep), "all " + std::to_string(limit) + " specifier subsets, all 8 qualifier subsets, " + std::to_string(sizeof other_reserved / sizeof other_reserved[0]) +
                                           " non-basic reserved words", out);
   tally.evaluations += n - 1;
   for (std::uint32_t S = 1; S < limit; ++S) tally.nontrivial_hashes.insert(vf::fnv1a(&S, sizeof S, 0x9e3779b97f4a7c15ull));
   tally.exhaustive = limit == (1u << 18);
   tally.notes["exhaustive_part"] = std::to_string(n) + " enumerated checks: every subset of the 18 basic specifiers and of the 3 basic qualifiers, every non-basic reserved word";
}

}   // namespace

int main(int argc, char** argv)
{
   vf::Hooks<Case> hk;
   hk.generator = generator;
   hk.run = run_case;
   hk.to_text = to_text;
   hk.from_text = from_text;
   hk.sample = sample;
   hk.exhaustive = exhaustive;
   return vf::drive<Case>(argc, argv, "C10", hk);
}
