// C18 -- printing terminates and leaves the stream and the printer as it found them.
//
// Domain: construction scripts from the "printer" profile: every node kind is
// offered to the printer as declaration, type, expression and statement (PRINT
// ops pick any node of the pools), literal and identifier spellings over all
// byte values, all five delimiters, statement nestings, and locations whose
// decimal, octal and hexadecimal renderings differ.
// Oracles: (1) the print completes or throws std::logic_error -- a stack-depth
// and output-volume guard turns unbounded recursion into a failure; (2) stream
// flags/fill/width/precision are as before and numbers written afterwards are
// decimal, location tokens name decimal file/line/column; (3) no control byte
// other than newline unless a spelling handed to the library contains it;
// (4) indentation after a completed top-level print is back where it started.
#include "../engine_gen.hpp"
#include "../interp_util.hpp"
#include "../printing.hpp"

using namespace eng;

namespace {

const char* what_name(PrintWhat w)
{
   static const char* const n[] = {"unit", "xpr_decl", "xpr_type", "xpr_expr", "xpr_stmt"};
   return n[int(w)];
}

vf::Outcome run_case(const Case& c, const vf::Options&)
{
   vf::Outcome out;
   Flags fl;
   World w(fl, Findings{"C18", &out});
   w.counters["nest_qualified"] = 1;
   w.run(c);
   print_sweep(w, 24);   // whatever the script built is offered to the printer in every role
   // spellings that legitimately bring control bytes / location look-alikes into the output
   bool allowed_ctl[256] = {};
   bool spelling_has_location_shape = false;
   for (auto& s : w.spellings) {
      for (unsigned char ch : s) allowed_ctl[ch] = true;
      for (std::size_t i = 0; i + 1 < s.size(); ++i)
         if (s[i] == 'F' && std::isdigit(static_cast<unsigned char>(s[i + 1]))) spelling_has_location_shape = true;
   }
   // every location the script ever stamped, in decimal (a statement may be re-stamped after it was printed)
   const std::set<std::string>& located = w.stamped_locations;
   long completed = 0, refused = 0, with_ctl_literal = 0, nested = 0;
   for (auto& r : w.prints) {
      const std::string tag = std::string(what_name(r.what)) + ":" + (r.what == P_UNIT ? "unit" : category_name(r.cat));
      switch (r.result.status) {
      case PrintResult::Completed: ++completed; break;
      case PrintResult::Refused: ++refused; break;
      case PrintResult::Runaway: {
         // one signature per recursion pattern (what the runaway print keeps writing), not per root node kind
         std::string tail;
         const std::string& t = r.result.text;
         for (std::size_t i = t.size() >= 6 ? t.size() - 6 : 0; i < t.size(); ++i) tail += std::isalnum(static_cast<unsigned char>(t[i])) ? 'a' : t[i];
         out.fail("C18:unbounded-recursion:writes:" + vf::sanitize(printable(tail)), "printing " + tag + " recursed past the stack-depth guard (" + r.result.what + ") after writing " + std::to_string(t.size()) + " bytes ending in '" + printable(t.substr(t.size() >= 24 ? t.size() - 24 : 0)) + "'");
         break;
      }
      case PrintResult::Foreign: out.fail("C18:foreign-exception:" + tag, r.result.what); break;
      case PrintResult::TooBig: out.count("prints_too_big"); break;
      case PrintResult::SkippedCyclic: out.count("prints_skipped_cyclic"); break;
      }
      if (r.result.status != PrintResult::Completed && r.result.status != PrintResult::Refused) continue;
      out.count(std::string("printed_") + tag);
      // (2) the stream is left as found; numbers are decimal from the first to the last byte
      if (r.result.stream_state_changed) out.fail("C18:stream-state", "printing " + tag + " changed the stream: " + r.result.stream_state_detail);
      if (r.result.probe != "100 64 255") out.fail("C18:numbers-not-decimal", "after printing " + tag + " the printer renders 100 64 255 as '" + printable(r.result.probe) + "'");
      if (r.locations && !spelling_has_location_shape) {
         const std::string& t = r.result.text;
         for (std::size_t i = 0; i + 1 < t.size(); ++i) {
            if (t[i] != 'F' || !std::isdigit(static_cast<unsigned char>(t[i + 1]))) continue;
            if (i > 0 && (std::isalnum(static_cast<unsigned char>(t[i - 1])) || t[i - 1] == '_')) continue;
            std::size_t j = i + 1;
            while (j < t.size() && (std::isalnum(static_cast<unsigned char>(t[j])) || t[j] == ':')) ++j;
            std::string tok = t.substr(i, j - i);
            while (!tok.empty() && tok.back() == ':') tok.pop_back();
            if (tok.find(':') == std::string::npos) continue;
            out.count("location_tokens");
            if (!located.count(tok)) out.fail("C18:location-not-decimal", "location token '" + printable(tok) + "' names no stamped location in decimal");
         }
      }
      // (3) no NUL or other control byte except newline unless a spelling contains it
      for (unsigned char ch : r.result.text)
         if ((ch < 0x20 || ch == 0x7f) && ch != '\n' && !allowed_ctl[ch]) {
            char b[8];
            std::snprintf(b, sizeof b, "0x%02x", ch);
            out.fail(std::string("C18:control-byte:") + b, "printing " + tag + " wrote a control byte no spelling contains");
            break;
         }
      // (4) indentation is back where it started after a complete top-level declaration or statement
      if (r.result.status == PrintResult::Completed && (r.what == P_UNIT || r.what == P_DECL || r.what == P_STMT) && r.result.indent_after != r.result.indent_before)
         out.fail("C18:indentation:" + tag, "indentation is " + std::to_string(r.result.indent_after) + " after a complete print, it was " + std::to_string(r.result.indent_before));
      if (r.result.text.find('\n') != std::string::npos) ++nested;
      if (r.result.text.find("\\0") != std::string::npos || r.result.text.find("\\a") != std::string::npos) ++with_ctl_literal;
   }
   out.classes["max_print_stack_kib"] = w.counters["max_print_stack_kib"];
   out.count("prints_completed", completed);
   out.count("prints_refused", refused);
   out.count("prints_with_escaped_control_literal", with_ctl_literal);
   out.count("prints_multi_line", nested);
   out.nontrivial = completed >= 3 && nested >= 1 && refused + completed >= 5;
   return out;
}

std::string sample(const Case& c)
{
   std::istringstream is(to_text(c));
   std::string line, r;
   int n = 0;
   while (std::getline(is, line) && n++ < 14) r += line + "; ";
   if (c.ops.size() > 13) r += "... (" + std::to_string(c.ops.size()) + " ops)";
   return r;
}

// Every node kind offered as declaration, type, expression and statement: the zoo script followed by PRINT ops
// that sweep the pools in all four roles.
void exhaustive(const vf::Options& o, vf::Tally& tally)
{
   if (o.get("zoo", 1) == 0) return;
   Case c;
   c.profile = "printer";
   const Profile& p = profile("printer");
   const auto& tab = op_table();
   const int print_k = op_index("PRINT");
   for (int round = 0; round < 2; ++round)
      for (std::size_t k = 0; k < tab.size(); ++k) {
         const int lo = k == 0 ? 0 : p.cumulative[k - 1];
         if (lo >= p.cumulative[k] || int(k) == print_k) continue;
         const int variants = std::strcmp(tab[k].name, "FORM") == 0 || std::strcmp(tab[k].name, "BINARY") == 0 ? 40 : (std::strcmp(tab[k].name, "UNARY") == 0 ? 26 : 7);
         for (int v = 0; v < variants; ++v) {
            Op op;
            op.code = std::uint16_t(lo);
            op.a = std::uint8_t(v); op.b = std::uint8_t(v * 7 + round * 3); op.c = std::uint8_t(v * 3 + 1 + round);
            op.d = std::uint8_t(v * 5 + 2 + round); op.e = std::uint8_t(v + round); op.f = std::uint8_t(v * 11 + round);
            c.ops.push_back(op);
         }
      }
   const int plo = print_k == 0 ? 0 : p.cumulative[print_k - 1];
   for (int role = 0; role < 8; ++role)
      for (int i = 0; i < 256; ++i)
         for (int page = 0; page < (role == 4 || role == 5 ? 4 : 1); ++page) {
            Op op;
            op.code = std::uint16_t(plo);
            op.a = std::uint8_t(role); op.b = std::uint8_t(i); op.c = std::uint8_t(i % 2); op.d = std::uint8_t(page); op.e = std::uint8_t(i / 2 % 2);
            c.ops.push_back(op);
         }
   account_fixed_script(o, tally, c, "zoo script + PRINT sweep of every pool in all four roles (" + std::to_string(c.ops.size()) + " ops)", run_case, 120);
   tally.notes["zoo"] = "every op with 7-40 operand variants (2 rounds), then PRINT of every pool element as unit/decl/type/expr/stmt";
}

vf::Hooks<Case> make_hooks(const vf::Options&)
{
   vf::Hooks<Case> hk;
   hk.generator = [](const vf::Options&) { return case_gen("printer"); };
   hk.run = run_case;
   hk.to_text = [](const Case& c) { return to_text(c); };
   hk.from_text = [](const std::string& s, Case& c) { return from_text(s, c); };
   hk.sample = sample;
   hk.exhaustive = exhaustive;
   return hk;
}
bool decode(const std::uint8_t* d, std::size_t n, const vf::Options&, Case& c) { return script_from_bytes(d, n, "printer", 0, c); }

}   // namespace

VF_MAIN(Case, "C18", make_hooks, decode)
