// C03 -- words are interned: one String per distinct byte content, content preserved.
//
// Domain: sequences of words interned into a fresh util::string_pool or through
// Lexicon::get_string: every short length, the inline-header and 16-byte-granule
// boundaries, 64 KiB +-1, words that roll the 1 MiB pools over or exactly fill the
// remainder of one, oversize words (1 MiB +-17, 3 MiB), all 256 byte values, views
// into exactly-sized heap buffers (not NUL-terminated; ASan guards the end),
// equal-length / equal-prefix neighbours, every reserved word and near misses.
// Oracle: std::map<bytes, node> model -- characters() equals the bytes, equal
// contents <=> same node, and every String returned earlier is re-read after
// later interns (an overwrite inside one arena block is invisible to ASan).
#include "../support.hpp"

#include <ipr/impl>

#include <memory>

using namespace ipr;

namespace {

struct Word {
   std::uint8_t kind = 0;
   std::uint32_t len = 0;
   std::uint32_t seed = 0;
};

struct Case {
   std::uint8_t via_lexicon = 0;
   std::vector<Word> words;
};

std::string to_text(const Case& c)
{
   std::ostringstream os;
   os << "C03 via " << int(c.via_lexicon) << "\n";
   for (auto& w : c.words) os << int(w.kind) << " " << w.len << " " << w.seed << "\n";
   return os.str();
}

bool from_text(const std::string& s, Case& c)
{
   std::istringstream is(s);
   std::string tag, w;
   int via;
   if (!(is >> tag >> w >> via) || tag != "C03") return false;
   c = Case{};
   c.via_lexicon = std::uint8_t(via);
   unsigned k, l, sd;
   while (is >> k >> l >> sd) c.words.push_back(Word{std::uint8_t(k), l, sd});
   return true;
}
std::ostream& operator<<(std::ostream& os, const Case& c) { return os << to_text(c); }
std::string sample(const Case& c)
{
   std::ostringstream os;
   os << (c.via_lexicon % 2 ? "Lexicon::get_string" : "string_pool::intern") << " words(kind:len)=[";
   for (std::size_t i = 0; i < c.words.size() && i < 24; ++i) os << int(c.words[i].kind % 13) << ":" << c.words[i].len << " ";
   if (c.words.size() > 24) os << "...";
   os << "] n=" << c.words.size();
   return os.str();
}

const char8_t* const reserved_words[] = {
   u8"...", u8"=0", u8"C", u8"C++", u8"auto", u8"bool", u8"char", u8"char16_t", u8"char32_t", u8"char8_t", u8"class", u8"const", u8"consteval",
   u8"constexpr", u8"constinit", u8"default", u8"delete", u8"double", u8"enum", u8"explicit", u8"export", u8"extern", u8"false", u8"float", u8"friend",
   u8"inline", u8"int", u8"long", u8"long double", u8"long long", u8"mutable", u8"namespace", u8"nullptr", u8"private", u8"protected", u8"public",
   u8"register", u8"restrict", u8"short", u8"signed char", u8"static", u8"this", u8"thread_local", u8"true", u8"typedef", u8"typename", u8"union",
   u8"unsigned char", u8"unsigned int", u8"unsigned long", u8"unsigned long long", u8"unsigned short", u8"virtual", u8"void", u8"volatile", u8"wchar_t"};
constexpr unsigned n_reserved = sizeof reserved_words / sizeof reserved_words[0];

// The constant String of each reserved word, reached WITHOUT going through interning.
const std::map<std::string, const String*>& reserved_nodes()
{
   static const std::map<std::string, const String*> table = [] {
      std::map<std::string, const String*> t;
      impl::Lexicon L;
      auto put = [&](const String& s) {
         auto w = s.characters();
         t[std::string(reinterpret_cast<const char*>(w.data()), w.size())] = &s;
      };
      auto put_name = [&](const Name& n) {
         if (auto id = util::view<Identifier>(n)) put(id->string());
      };
      const Type* types[] = {&L.void_type(),     &L.bool_type(),      &L.char_type(),       &L.schar_type(),  &L.uchar_type(),  &L.wchar_t_type(), &L.char8_t_type(),
                             &L.char16_t_type(), &L.char32_t_type(),  &L.short_type(),      &L.ushort_type(), &L.int_type(),    &L.uint_type(),    &L.long_type(),
                             &L.ulong_type(),    &L.long_long_type(), &L.ulong_long_type(), &L.float_type(),  &L.double_type(), &L.long_double_type(),
                             &L.ellipsis_type(), &L.typename_type(),  &L.class_type(),      &L.union_type(),  &L.enum_type(),   &L.namespace_type()};
      for (auto ty : types) put_name(ty->name());
      put_name(L.default_value().type().name());   // auto
      for (auto s : {&L.false_value(), &L.true_value(), &L.nullptr_value(), &L.default_value(), &L.delete_value()}) put_name(s->name());
      put_name(L.get_this(L.void_type()).name());
      put(L.c_linkage().language().what());
      put(L.cxx_linkage().language().what());
      for (auto& b : L.decompose(Specifiers{0x3ffff})) put(b.logogram().what());
      for (auto& b : L.decompose(Qualifiers{7})) put(b.logogram().what());
      return t;
   }();
   return table;
}

// arena arithmetic mirrored from the documentation of util::string::arena, only to AIM words at its boundaries
constexpr std::size_t header_bytes = 16, inline_bytes = 8, pool_headers = 65536;
std::size_t headers_for(std::size_t n) { return (n + header_bytes - 1 - inline_bytes) / header_bytes + 1; }

std::string make_bytes(const Word& w, std::size_t len, bool printable_only = false)
{
   std::string s(len, '\0');
   std::uint32_t x = w.seed * 2654435761u + 12345u;
   for (std::size_t i = 0; i < len; ++i) {
      x = x * 1664525u + 1013904223u;
      s[i] = printable_only ? char('a' + (x >> 24) % 26) : char(x >> 24);
   }
   return s;
}

// Words that collide under std::hash<u8string_view>, whatever its seed.  libstdc++ hashes bytes with a MurmurHash64A
// variant: per 8-byte block k, h = (h ^ f(k)) * mul with f(k) = mix(mix-less k * mul) ... precisely
// f(k) = shift_mix(k * mul) * mul, shift_mix(v) = v ^ (v >> 47).  Flipping the top bit of f(k) in two consecutive blocks
// cancels ((x ^ 2^63) * mul == (x * mul) ^ 2^63 for odd mul), and f is invertible, so for any blocks (k1, k2) the blocks
// (f^-1(f(k1) ^ 2^63), f^-1(f(k2) ^ 2^63)) give the same hash.  The harness verifies the collision with std::hash itself
// before relying on it (collider_pairs_verified / collider_pairs_not_colliding), and the oracle never uses it.
constexpr std::uint64_t murmur_mul = 0xc6a4a7935bd1e995ull;
constexpr std::uint64_t inverse_of(std::uint64_t a)
{
   std::uint64_t x = a;   // Newton iteration modulo 2^64 (a odd)
   for (int i = 0; i < 6; ++i) x *= 2 - a * x;
   return x;
}
constexpr std::uint64_t murmur_inv = inverse_of(murmur_mul);
static_assert(murmur_mul * murmur_inv == 1);
inline std::uint64_t shift_mix(std::uint64_t v) { return v ^ (v >> 47); }
inline std::uint64_t block_f(std::uint64_t k) { return shift_mix(k * murmur_mul) * murmur_mul; }
inline std::uint64_t block_f_inverse(std::uint64_t y) { return shift_mix(y * murmur_inv) * murmur_inv; }

std::string collider(std::uint32_t seed, unsigned pairs, unsigned variant)
{
   std::string out;
   std::uint64_t x = 0x9e3779b97f4a7c15ull * (seed + 1);
   for (unsigned p = 0; p < pairs; ++p) {
      std::uint64_t k[2];
      for (auto& b : k) {
         x ^= x >> 30; x *= 0xbf58476d1ce4e5b9ull; x ^= x >> 27; x *= 0x94d049bb133111ebull; x ^= x >> 31;
         b = x;
      }
      if (variant >> p & 1)
         for (auto& b : k) b = block_f_inverse(block_f(b) ^ (std::uint64_t(1) << 63));
      out.append(reinterpret_cast<const char*>(k), sizeof k);
   }
   return out;
}

struct Sink {
   util::string_pool pool;
   std::unique_ptr<impl::Lexicon> lex;
   const String& intern(util::word_view v) { return lex ? lex->get_string(v) : pool.intern(v); }
};

vf::Outcome run_case(const Case& c, const vf::Options& o)
{
   vf::Outcome out;
   Sink sink;
   if (c.via_lexicon % 2) sink.lex.reset(new impl::Lexicon);
   std::map<std::string, const String*> model;
   std::vector<std::string> order;           // contents in first-intern order
   std::set<const String*> nodes;
   std::size_t used_headers = 0;             // mirrored fill level of the current pool
   std::size_t total_bytes = 0;
   const std::size_t byte_cap = std::size_t(o.get("bytecap", 24)) << 20;
   long rollovers = 0, oversize = 0, near_miss = 0, reverified = 0, colliders = 0;
   auto verify_all = [&](const char* when) {
      for (auto& [bytes, node] : model) {
         auto v = node->characters();
         if (v.size() != bytes.size() || std::memcmp(v.data(), bytes.data(), bytes.size()) != 0) {
            out.fail("C03:earlier-string-altered", std::string(when) + ": a String of length " + std::to_string(bytes.size()) + " no longer reads as interned");
            return false;
         }
         ++reverified;
      }
      return true;
   };
   std::size_t step = 0;
   for (auto& w : c.words) {
      std::string bytes;
      switch (w.kind % 13) {
      case 12: {                                                                             // a member of a family of distinct words with EQUAL std::hash
         bytes = collider(w.seed, 1 + (w.len / 2) % 2, w.len / 4);
         ++colliders;
         break;
      }
      case 0: bytes = make_bytes(w, w.len % 41); break;                                       // every short length, all byte values
      case 1: bytes = make_bytes(w, 6 + w.len % 5); break;                                    // around the inline header (8)
      case 2: bytes = make_bytes(w, inline_bytes + header_bytes * (1 + w.len % 6) + (w.seed % 3) - 1); break;   // granule multiples +-1
      case 3: bytes = make_bytes(w, 65535 + w.len % 3); break;                                // 64 KiB +-1
      case 4: bytes = make_bytes(w, 20000 + w.len % 40000); break;                            // rolls the pools over
      case 5: {                                                                              // exactly fills (or just misses) the remainder of the pool
         const std::size_t left = pool_headers - used_headers;
         const std::size_t target = left > 2 ? left - (w.len % 3) : 1;
         const std::size_t full = inline_bytes + (target - 1) * header_bytes;   // the longest word needing exactly `target` headers
         const std::size_t cut = w.seed % 2 ? 0 : (w.seed / 2) % 16;
         bytes = make_bytes(w, full > cut ? full - cut : full);
         break;
      }
      case 6: bytes = make_bytes(w, (std::size_t(1) << 20) - 17 + w.len % 35); break;        // oversize boundary
      case 7: bytes = make_bytes(w, w.len % 4 == 0 ? (std::size_t(3) << 20) + w.seed % 9 : (std::size_t(1) << 20) + 1 + w.len % 64); break;
      case 8: bytes = reinterpret_cast<const char*>(reserved_words[w.len % n_reserved]); break;
      case 9: {                                                                              // near miss of a reserved word
         bytes = reinterpret_cast<const char*>(reserved_words[w.len % n_reserved]);
         switch (w.seed % 5) {
         case 0: bytes.pop_back(); break;
         case 1: bytes.erase(0, 1); break;
         case 2: bytes[bytes.size() / 2] = char(bytes[bytes.size() / 2] ^ 1); break;
         case 3: bytes.push_back('\0'); break;
         default: bytes.push_back(' '); break;
         }
         ++near_miss;
         break;
      }
      case 10:                                                                               // an earlier word again (same content, new buffer)
         if (!order.empty()) bytes = order[w.len % order.size()];
         break;
      default: {                                                                             // equal-length / equal-prefix neighbour of an earlier word
         if (!order.empty()) {
            bytes = order[w.len % order.size()];
            if (!bytes.empty()) bytes[bytes.size() - 1 - (w.seed % bytes.size()) % std::min<std::size_t>(bytes.size(), 4)] ^= char(1 + w.seed % 7);
         }
         break;
      }
      }
      if (total_bytes + bytes.size() > byte_cap) continue;   // bounded by generated size, not by time
      total_bytes += bytes.size();
      // an exactly sized heap buffer: nothing readable beyond the word, no NUL terminator
      std::unique_ptr<char8_t[]> buf(new char8_t[bytes.size() ? bytes.size() : 1]);
      std::memcpy(buf.get(), bytes.data(), bytes.size());
      const String& s = sink.intern(util::word_view(buf.get(), bytes.size()));
      buf.reset();   // the pool must own a copy
      auto v = s.characters();
      if (v.size() != bytes.size() || std::memcmp(v.data(), bytes.data(), bytes.size()) != 0)
         out.fail("C03:content", "characters() of a word of length " + std::to_string(bytes.size()) + " differs from the bytes interned");
      if (s.size() != bytes.size()) out.fail("C03:content", "size() differs");
      auto it = model.find(bytes);
      if (it != model.end()) {
         if (it->second != &s) out.fail("C03:equal-content-different-node", "length " + std::to_string(bytes.size()));
         out.count("repeat_interns");
      }
      else {
         if (!nodes.insert(&s).second) out.fail("C03:different-content-same-node", "a word of length " + std::to_string(bytes.size()) + " shares its node with other content");
         model.emplace(bytes, &s);
         order.push_back(bytes);
         // mirror of the arena fill level (only used to aim later words)
         auto rn = reserved_nodes().find(bytes);
         if (bytes.empty()) {
            if (&s != &String::empty_string()) out.fail("C03:empty-word", "the empty word is not String::empty_string()");
         }
         else if (rn != reserved_nodes().end()) {
            if (rn->second != &s) out.fail("C03:reserved-word-not-constant", "a reserved spelling was not mapped to the process-wide constant");
            out.count("reserved_words");
         }
         else {
            const std::size_t m = headers_for(bytes.size());
            if (m <= pool_headers - used_headers) used_headers += m;   // fits in the current pool
            else if (bytes.size() > pool_headers) ++oversize;          // gets a pool of its own; the current one stays
            else {
               used_headers = m;                                       // a fresh pool
               ++rollovers;
            }
         }
      }
      if (++step % 16 == 0 && !verify_all("periodic re-read")) break;
   }
   verify_all("final re-read");
   // the reserved words map to their constants in this pool too (whatever was interned before)
   for (unsigned i = 0; i < n_reserved; ++i) {
      const String& s = sink.intern(reserved_words[i]);
      auto rn = reserved_nodes().find(reinterpret_cast<const char*>(reserved_words[i]));
      if (rn == reserved_nodes().end() || rn->second != &s) {
         out.fail("C03:reserved-word-not-constant", std::string(reinterpret_cast<const char*>(reserved_words[i])));
         break;
      }
   }
   if (&sink.intern(u8"") != &String::empty_string()) out.fail("C03:empty-word", "the empty word is not String::empty_string()");
   out.count("pool_rollovers", rollovers);
   out.count("oversize_words", oversize);
   out.count("near_misses", near_miss);
   out.count("collider_words", colliders);
   // words of this case that really share a std::hash value with a different word of the case (self-check of the construction)
   if (colliders) {
      std::map<std::size_t, int> by_hash;
      for (auto& b : order)
         if (b.size() == 16 || b.size() == 32) ++by_hash[std::hash<std::u8string_view>{}(std::u8string_view(reinterpret_cast<const char8_t*>(b.data()), b.size()))];
      long shared = 0;
      for (auto& [h, n] : by_hash)
         if (n > 1) shared += n;
      out.count("distinct_words_sharing_a_hash_bucket", shared);
   }
   out.count("reverified", reverified);
   out.count("words", long(order.size()));
   out.nontrivial = ((rollovers + oversize) >= 1 && reverified >= 100) || near_miss >= 1;
   return out;
}

rc::Gen<Case> generator(const vf::Options&)
{
   using namespace rc;
   auto word = gen::map(gen::tuple(vf::in_range<int>(0, 28), vf::in_range<int>(0, 1 << 16), vf::in_range<int>(0, 1 << 20)), [](const std::tuple<int, int, int>& t) {
      Word w;
      // kinds 0..11; the cheap kinds are drawn more often than the megabyte ones
      static const std::uint8_t dist[28] = {0, 0, 0, 0, 1, 1, 2, 2, 3, 4, 4, 4, 5, 5, 6, 7, 8, 8, 9, 9, 10, 10, 11, 11, 12, 12, 12, 12};
      w.kind = dist[std::get<0>(t)];
      w.len = std::uint32_t(std::get<1>(t));
      w.seed = std::uint32_t(std::get<2>(t));
      if (w.kind == 12) w.seed %= 6;   // few families, so that members of one family meet in one pool
      return w;
   });
   return gen::map(gen::tuple(vf::byte(), gen::container<std::vector<Word>>(word)), [](const std::tuple<std::uint8_t, std::vector<Word>>& t) {
      Case c;
      c.via_lexicon = std::get<0>(t);
      c.words = std::get<1>(t);
      return c;
   });
}

void exhaustive(const vf::Options& o, vf::Tally& tally)
{
   // every length 0..300 and around every boundary once, in one pool; then every reserved word and its near misses
   Case c;
   for (std::uint32_t len = 0; len <= 300; ++len) {
      Word w;
      w.kind = 0;
      w.len = len % 41;
      w.seed = len;
      c.words.push_back(w);
   }
   for (std::uint32_t k = 0; k < 6; ++k)
      for (std::uint32_t d = 0; d < 3; ++d) c.words.push_back(Word{2, k, d});
   for (std::uint32_t d = 0; d < 3; ++d) c.words.push_back(Word{3, d, d});
   for (std::uint32_t i = 0; i < 60; ++i) c.words.push_back(Word{4, i * 977, i});
   for (std::uint32_t i = 0; i < 6; ++i) c.words.push_back(Word{5, i, i});
   for (std::uint32_t d = 0; d < 35; d += 5) c.words.push_back(Word{6, d, d});
   c.words.push_back(Word{7, 0, 1});
   c.words.push_back(Word{7, 1, 2});
   for (std::uint32_t i = 0; i < n_reserved; ++i) {
      c.words.push_back(Word{8, i, 0});
      for (std::uint32_t e = 0; e < 5; ++e) c.words.push_back(Word{9, i, e});
   }
   for (std::uint32_t fam = 0; fam < 6; ++fam)
      for (std::uint32_t l = 0; l < 16; ++l) c.words.push_back(Word{12, l, fam});   // all 2 + 4 members of each family, several times
   for (int via = 0; via < 2; ++via) {
      c.via_lexicon = std::uint8_t(via);
      vf::Options big = o;
      big.extra["bytecap"] = "64";
      vf::Outcome out = vf::run_enumerated("C03", run_case, c, big, to_text(c));
      vf::account(o, tally, to_text(c), "boundary sweep: " + sample(c), out);
   }
   tally.notes["exhaustive_part"] = "fixed boundary sweep (all lengths 0..40, granule, 64 KiB, pool roll-over, exact fill, oversize, every reserved word and 5 near misses each) through both routes";
}

vf::Hooks<Case> make_hooks(const vf::Options&)
{
   vf::Hooks<Case> hk;
   hk.generator = generator;
   hk.run = run_case;
   hk.to_text = to_text;
   hk.from_text = from_text;
   hk.sample = sample;
   hk.exhaustive = exhaustive;
   return hk;
}

// libFuzzer mode: one route byte, then 5 bytes per word (kind, 16-bit length selector, 16-bit content seed)
bool decode(const std::uint8_t* d, std::size_t n, const vf::Options&, Case& c)
{
   c = Case{};
   if (n < 6) return false;
   c.via_lexicon = d[0];
   for (std::size_t i = 1; i + 5 <= n; i += 5) {
      Word w;
      w.kind = d[i];
      w.len = std::uint32_t(d[i + 1]) | std::uint32_t(d[i + 2]) << 8;
      w.seed = std::uint32_t(d[i + 3]) | std::uint32_t(d[i + 4]) << 8;
      c.words.push_back(w);
   }
   return true;
}

}   // namespace

VF_MAIN(Case, "C03", make_hooks, decode)
