// C17 -- printed text depends only on graph structure and printer options.
//
// Domain: construction scripts from the "printable" profile (declarations,
// types, classic expressions, statements, user-defined types, locations), with
// spellings that cannot spell a location token.  Every script is executed
//   A  plainly in a fresh Lexicon,
//   B  in a Lexicon that was pre-populated by the *reversed* script (so the
//      names and unified leaves the script asks for already exist, created in
//      the opposite order) and with unrelated heap traffic before every op
//      (so generative nodes reuse released blocks out of address order),
//   T  as the location-free twin (no LOCATE op takes effect).
// Oracles (differential / metamorphic):
//   * every print of the suite (each unit, declaration, statement, a sample of
//     expressions; locations off and on) gives the same outcome and the same
//     bytes in A and B;
//   * printing A again with a fresh printer gives the same bytes, and the
//     observer's answers for every node of A are what they were before printing;
//   * locations: the off-print contains no location token; the on-print with
//     its location tokens removed is the off-print; the off-print of A is the
//     on-print of T; each located statement or declaration printed on its own
//     starts with exactly its F<file>:<line>[:<column>] token when locations
//     are on and carries none when they are off.
#include "../engine_gen.hpp"
#include "../interp_util.hpp"
#include "../printing.hpp"

using namespace eng;

namespace {

struct Shot {
   PrintWhat what;
   const void* target;
   Entity root;
   std::size_t index;            // position in its pool
   const StmtH* handle = nullptr;   // statements / declarations: where a location may have been stamped
};

struct Printed {
   PrintResult::Status status;
   std::string text;
   std::string what;
};

const char* what_name(PrintWhat w)
{
   static const char* const n[] = {"unit", "xpr_decl", "xpr_type", "xpr_expr", "xpr_stmt"};
   return n[int(w)];
}

// the print suite of a world: same pools, same order in every world that ran the same script
std::vector<Shot> suite(World& w, std::size_t cap)
{
   std::vector<Shot> s;
   auto stride = [&](std::size_t n) { return n <= cap ? std::size_t(1) : (n + cap - 1) / cap; };
   std::size_t k = 0;
   for (auto& u : w.units) s.push_back({P_UNIT, static_cast<const ipr::Translation_unit*>(&u), ent(u.global_namespace()), k++});
   for (std::size_t i = 0, st = stride(w.stmts.size()); i < w.stmts.size(); i += st) {
      const ipr::Stmt* x = w.stmts[i].stmt;
      const bool is_decl = dynamic_cast<const ipr::Decl*>(x) != nullptr;
      s.push_back({is_decl ? P_DECL : P_STMT, static_cast<const ipr::Expr*>(x), ent(*x), i, &w.stmts[i]});
   }
   for (std::size_t i = 0, st = stride(w.types.size()); i < w.types.size(); i += st)
      s.push_back({P_TYPE, static_cast<const ipr::Expr*>(w.types[i]), ent(*w.types[i]), i});
   for (std::size_t i = 0, st = stride(w.exprs.size()); i < w.exprs.size(); i += st) s.push_back({P_EXPR, w.exprs[i], ent(*w.exprs[i]), i});
   return s;
}

Printed shoot(World& w, const Shot& s, bool locations)
{
   if (!printable_acyclic(s.root, nullptr, nullptr, &w.acyclic_known)) return {PrintResult::SkippedCyclic, "", ""};
   PrintResult r = guarded_print(w.L(), s.what, s.target, locations);
   return {r.status, std::move(r.text), std::move(r.what)};
}

std::string location_token(const ipr::Source_location& l)
{
   if (ipr::util::rep(l.file) == 0) return "";
   std::string t = "F" + std::to_string(ipr::util::rep(l.file)) + ":" + std::to_string(ipr::util::rep(l.line));
   if (ipr::util::rep(l.column) != 0) t += ":" + std::to_string(ipr::util::rep(l.column));
   return t + " ";
}

// F<digits>:<digits>[:<digits>]<space>.  No spelling of this profile can produce that shape (the safe alphabet has no 'F'
// followed by a digit), so it is a location token wherever it stands -- also right after an identifier character: the
// printer writes locations through the raw stream, without the padding it puts between words.
bool token_at(const std::string& t, std::size_t i, std::size_t* len)
{
   if (t[i] != 'F') return false;
   std::size_t j = i + 1;
   auto digits = [&] {
      const std::size_t b = j;
      while (j < t.size() && std::isdigit(static_cast<unsigned char>(t[j]))) ++j;
      return j > b;
   };
   if (!digits() || j >= t.size() || t[j] != ':') return false;
   ++j;
   if (!digits()) return false;
   if (j < t.size() && t[j] == ':') {
      const std::size_t save = j;
      ++j;
      if (!digits()) j = save;
   }
   if (j >= t.size() || t[j] != ' ') return false;
   *len = j + 1 - i;
   return true;
}

std::string strip_tokens(const std::string& t, long* count)
{
   std::string r;
   for (std::size_t i = 0; i < t.size();) {
      std::size_t len = 0;
      if (token_at(t, i, &len)) {
         i += len;
         if (count) ++*count;
      }
      else
         r += t[i++];
   }
   return r;
}

// The comparison of an on-print (its tokens removed) with the off-print ignores blanks: a location token takes the place
// of the blank the printer would have put between two words (it is written through the raw stream and brings its own
// trailing blank), so the two texts differ in blanks around tokens and in nothing else.
std::string squeeze(const std::string& t)
{
   std::string r;
   for (char ch : t)
      if (ch != ' ') r += ch;
   return r;
}

std::string excerpt(const std::string& a, const std::string& b)
{
   std::size_t i = 0;
   while (i < a.size() && i < b.size() && a[i] == b[i]) ++i;
   const std::size_t from = i > 20 ? i - 20 : 0;
   return "first difference at byte " + std::to_string(i) + ": '" + printable(a.substr(from, 48)) + "' vs '" + printable(b.substr(from, 48)) + "'";
}

vf::Outcome run_case(const Case& c, const vf::Options& o)
{
   vf::Outcome out;
   const std::size_t cap = std::size_t(o.get("cap", 40));
   Flags fa;
   fa.safe_spellings = true;
   fa.no_junk = true;
   fa.complete_decls = true;
   World A(fa, Findings{"C17", &out});
   A.run(c);
   const auto shots = suite(A, cap);

   // ---- A: print everything, locations off and on; the graph must not change; a second print must agree
   Snapshot before;
   take_snapshot(A, before, 0);
   std::vector<Printed> a_off, a_on;
   for (auto& s : shots) {
      a_off.push_back(shoot(A, s, false));
      a_on.push_back(shoot(A, s, true));
   }
   oracle_stability(A, before, false, "after printing", "C17:graph-changed-by-printing:");
   long completed = 0, declarations_in_units = 0;
   for (std::size_t i = 0; i < shots.size(); ++i) {
      if (a_off[i].status == PrintResult::Completed) ++completed;
      else if (a_off[i].status == PrintResult::Refused) out.count(std::string("refused_") + what_name(shots[i].what) + "_" + (shots[i].what == P_UNIT ? "unit" : category_name(shots[i].root.node()->category)) + ": " + a_off[i].what.substr(0, 60));
      if (shots[i].what != P_UNIT) continue;
      out.count(a_off[i].status == PrintResult::Completed ? "unit_prints_completed" : "unit_prints_not_completed");
      Printed again = shoot(A, shots[i], false);
      if (again.status != a_off[i].status || again.text != a_off[i].text)
         out.fail("C17:reprint-differs:unit", "printing the same unit again with a fresh printer: " + excerpt(a_off[i].text, again.text));
      Printed again_on = shoot(A, shots[i], true);
      if (again_on.status != a_on[i].status || again_on.text != a_on[i].text)
         out.fail("C17:reprint-differs:unit-with-locations", "printing the same unit again with a fresh printer: " + excerpt(a_on[i].text, again_on.text));
      for (char ch : a_off[i].text) declarations_in_units += ch == ';';
   }
   out.count("prints_completed", completed);

   // ---- locations appear when, and only when, enabled
   long tokens_seen = 0, located_printed = 0;
   for (std::size_t i = 0; i < shots.size(); ++i) {
      const std::string tag = what_name(shots[i].what);
      if (a_off[i].status == PrintResult::SkippedCyclic) continue;
      long n_off = 0, n_on = 0;
      strip_tokens(a_off[i].text, &n_off);
      if (n_off != 0) out.fail("C17:location-printed-when-disabled:" + tag, "location printing is off, yet the output contains a location token: '" + printable(a_off[i].text.substr(0, 80)) + "'");
      const std::string stripped = strip_tokens(a_on[i].text, &n_on);
      tokens_seen += n_on;
      // The token takes the place of the padding blank an identifier would otherwise get, so the two prints are compared
      // up to runs of blanks (the statement is about the locations, not about spacing).
      if (a_on[i].status != a_off[i].status || squeeze(stripped) != squeeze(a_off[i].text))
         out.fail("C17:location-option-changes-text:" + tag, "apart from the location tokens the two prints must agree; " + excerpt(squeeze(a_off[i].text), squeeze(stripped)));
      // every token printed names a location some node was stamped with
      for (std::size_t k = 0; k < a_on[i].text.size(); ++k) {
         std::size_t len = 0;
         if (!token_at(a_on[i].text, k, &len)) continue;
         std::string tok = a_on[i].text.substr(k, len - 1);
         if (!A.stamped_locations.count(tok)) out.fail("C17:location-invented:" + tag, "the token '" + printable(tok) + "' names no location any node was stamped with");
         k += len - 1;
      }
      if (shots[i].handle && shots[i].handle->src && (a_on[i].status == PrintResult::Completed || a_on[i].status == PrintResult::Refused)) {
         const std::string want = location_token(*shots[i].handle->src);
         if (!want.empty()) {
            ++located_printed;
            if (a_on[i].text.compare(0, want.size(), want) != 0)
               out.fail("C17:location-missing-when-enabled:" + tag, "a " + std::string(category_name(shots[i].root.node()->category)) + " located at '" + want + "' printed with locations on starts with '" +
                                                                      printable(a_on[i].text.substr(0, 24)) + "'");
         }
      }
   }
   out.count("location_tokens_seen", tokens_seen);
   out.count("located_nodes_printed_alone", located_printed);

   // ---- B: same construction, different addresses, different interleaving with unrelated allocations.
   // Variant 1 (always): the Lexicon is pre-populated by a world whose prelude ran in reverse and by the reversed script,
   // so the unified leaves exist already, created in the opposite order -- this flips address order whatever the state
   // of the heap.  Variant 2 (aux[0] odd, or the fixed script): additionally unrelated blocks are allocated and released
   // before every op, so generative nodes reuse them out of order.
   long flipped = 0, pairs = 0;
   const int variants = c.aux.empty() || c.aux[0] % 2 ? 2 : 1;
   for (int variant = 1; variant <= variants; ++variant) {
      auto shared = std::make_shared<ipr::impl::Lexicon>();
      vf::Outcome scratch;
      Flags fq = fa;
      fq.reverse_prelude = true;
      World Q(fq, Findings{"none", &scratch}, shared);
      World pre(fa, Findings{"none", &scratch}, shared);
      {
         Case rev = c;
         std::reverse(rev.ops.begin(), rev.ops.end());
         pre.run(rev);
      }
      Flags fb = fa;
      if (variant == 2) fb.heap_shuffle = 1 + (c.aux.size() > 1 ? c.aux[1] : 0);
      World B(fb, Findings{"C17", &out}, shared);
      B.run(c);
      const auto shots_b = suite(B, cap);
      if (shots_b.size() != shots.size() || B.log.size() != A.log.size()) {
         out.count("harness_divergence");   // the two constructions did not line up: nothing to compare (never a violation by itself)
         continue;
      }
      for (std::size_t i = 0; i < shots.size(); ++i) {
         const std::string tag = what_name(shots[i].what);
         Printed b_off = shoot(B, shots_b[i], false);
         Printed b_on = shoot(B, shots_b[i], true);
         if (b_off.status != a_off[i].status || b_off.text != a_off[i].text)
            out.fail("C17:address-dependent-output", "two Lexicons, same construction, " + tag + " with locations off; " + excerpt(a_off[i].text, b_off.text));
         if (b_on.status != a_on[i].status || b_on.text != a_on[i].text)
            out.fail("C17:address-dependent-output", "two Lexicons, same construction, " + tag + " with locations on; " + excerpt(a_on[i].text, b_on.text));
      }
      // did the relative address order of corresponding nodes really change?
      const std::size_t n = std::min<std::size_t>(A.log.size(), 400);
      for (std::size_t i = 0; i + 1 < n; ++i)
         for (std::size_t j = i + 1; j < std::min(n, i + 12); ++j) {
            const void *ai = A.log[i].ent.ptr, *aj = A.log[j].ent.ptr, *bi = B.log[i].ent.ptr, *bj = B.log[j].ent.ptr;
            if (ai == aj || bi == bj) continue;
            ++pairs;
            if ((ai < aj) != (bi < bj)) ++flipped;
         }
      // B, pre and Q (their units) go away here, before the shared Lexicon
   }
   out.count("address_pairs_compared", pairs);
   out.count("address_pairs_flipped", flipped);

   // ---- T: the location-free twin printed with locations on == A printed with locations off
   {
      Flags ft = fa;
      ft.no_locate = true;
      World T(ft, Findings{"C17", &out});
      T.run(c);
      const auto shots_t = suite(T, cap);
      if (shots_t.size() == shots.size())
         for (std::size_t i = 0; i < shots.size(); ++i) {
            Printed t_on = shoot(T, shots_t[i], true);
            if (t_on.status != a_off[i].status || t_on.text != a_off[i].text)
               out.fail("C17:twin-differs", std::string("location-free twin ") + what_name(shots[i].what) + " with locations on vs the program with locations off; " + excerpt(a_off[i].text, t_on.text));
         }
      else
         out.count("harness_divergence");
   }
   out.count("declarations_printed_in_units", declarations_in_units);
   out.nontrivial = completed >= 5 && declarations_in_units >= 2 && flipped >= 1;
   return out;
}

std::string sample(const Case& c)
{
   std::istringstream is(to_text(c));
   std::string line, r;
   int n = 0;
   while (std::getline(is, line) && n++ < 14) r += line + "; ";
   if (c.ops.size() > 13) r += "... (" + std::to_string(c.ops.size()) + " ops)";
   return r;
}

void exhaustive(const vf::Options& o, vf::Tally& tally)
{
   if (o.get("zoo", 1) == 0) return;
   // fixed script: every op of the printable profile with several operand variants, three rounds
   Case c;
   c.profile = "printable";
   const Profile& p = profile("printable");
   const auto& tab = op_table();
   for (int round = 0; round < 3; ++round)
      for (std::size_t k = 0; k < tab.size(); ++k) {
         const int lo = k == 0 ? 0 : p.cumulative[k - 1];
         if (lo >= p.cumulative[k]) continue;
         const int variants = std::strcmp(tab[k].name, "BINARY") == 0 ? 40 : (std::strcmp(tab[k].name, "UNARY") == 0 ? 26 : (std::strcmp(tab[k].name, "DECL") == 0 || std::strcmp(tab[k].name, "LOCATE") == 0 ? 16 : 6));
         for (int v = 0; v < variants; ++v) {
            Op op;
            op.code = std::uint16_t(lo);
            op.a = std::uint8_t(v); op.b = std::uint8_t(v * 7 + round * 3); op.c = std::uint8_t(v * 3 + 1 + round);
            op.d = std::uint8_t(v * 5 + 2 + round); op.e = std::uint8_t(v + round); op.f = std::uint8_t(v * 11 + round);
            c.ops.push_back(op);
         }
      }
   account_fixed_script(o, tally, c, "zoo script of the printable profile (" + std::to_string(c.ops.size()) + " ops)", run_case, 150);
}

}   // namespace

int main(int argc, char** argv)
{
   vf::Hooks<Case> hk;
   hk.generator = [](const vf::Options&) { return case_gen("printable", 2); };
   hk.run = run_case;
   hk.to_text = [](const Case& c) { return to_text(c); };
   hk.from_text = [](const std::string& s, Case& c) { return from_text(s, c); };
   hk.sample = sample;
   hk.exhaustive = exhaustive;
   return vf::drive<Case>(argc, argv, "C17", hk);
}
