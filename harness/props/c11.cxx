// C11 -- qualified types are in normal form.
//
// Domain: an unqualified type T built from a generated recipe, and a sequence
// of successive qualification requests (non-empty subsets of {const, volatile,
// restrict}).  Enumerated part: all 2800 sequences of 1..4 non-empty subsets for
// several recipes; random part: longer sequences, arbitrary recipes, and a
// generated regrouping of the same qualifiers.
// Oracle (metamorphic): the chain's result is the very node
// get_qualified(union, T); qualifiers() is the union; main_variant() is T and is
// never Qualified; every prefix satisfies the same; any regrouping / order gives
// the same node; get_qualified({}, T) is refused.
#include "../support.hpp"

#include <ipr/impl>
#include <ipr/traversal>

using namespace ipr;

namespace {

struct Case {
   std::vector<std::uint8_t> recipe;   // how T is built
   std::vector<std::uint8_t> chain;    // successive qualifier subsets (1..7 each)
   std::vector<std::uint8_t> regroup;  // a second way of applying qualifiers with the same union
   std::uint8_t std_prelude = 0;       // 1: the Lexicon first receives the fixed population (66 types x 7 sets, scrambled order)
   std::vector<std::uint8_t> prelude;  // pairs (type selector, qualifier set): unrelated qualified types requested before the chain
};

std::string to_text(const Case& c)
{
   std::ostringstream os;
   os << "C11\n";
   for (auto b : c.recipe) os << "recipe " << int(b) << "\n";
   for (auto b : c.chain) os << "chain " << int(b) << "\n";
   for (auto b : c.regroup) os << "regroup " << int(b) << "\n";
   if (c.std_prelude) os << "std_prelude " << int(c.std_prelude) << "\n";
   for (auto b : c.prelude) os << "prelude " << int(b) << "\n";
   return os.str();
}

bool from_text(const std::string& s, Case& c)
{
   std::istringstream is(s);
   std::string tag;
   if (!(is >> tag) || tag != "C11") return false;
   c = Case{};
   int v;
   while (is >> tag >> v) {
      if (tag == "recipe") c.recipe.push_back(std::uint8_t(v));
      else if (tag == "chain") c.chain.push_back(std::uint8_t(v));
      else if (tag == "regroup") c.regroup.push_back(std::uint8_t(v));
      else if (tag == "std_prelude") c.std_prelude = std::uint8_t(v);
      else if (tag == "prelude") c.prelude.push_back(std::uint8_t(v));
   }
   return true;
}

std::ostream& operator<<(std::ostream& os, const Case& c) { return os << to_text(c); }

std::string sample(const Case& c)
{
   std::ostringstream os;
   os << "T=recipe[";
   for (auto b : c.recipe) os << int(b) << " ";
   os << "] chain[";
   for (auto b : c.chain) os << int(1 + b % 7) << " ";
   os << "] regroup[";
   for (auto b : c.regroup) os << int(b % 8) << " ";
   os << "]";
   return os.str();
}

struct Env {
   impl::Lexicon lex;
   impl::Translation_unit unit{lex};
};

const Type& builtin(impl::Lexicon& L, unsigned k)
{
   const Type* t[] = {&L.int_type(),  &L.void_type(),   &L.bool_type(), &L.char_type(),   &L.double_type(), &L.long_long_type(),
                      &L.uchar_type(), &L.wchar_t_type(), &L.float_type(), &L.typename_type(), &L.ellipsis_type()};
   return *t[k % (sizeof t / sizeof t[0])];
}

// An unqualified type: qualifiers may appear inside it, never at the top.
const Type& build(Env& e, const std::vector<std::uint8_t>& recipe)
{
   auto& L = e.lex;
   const Type* t = &builtin(L, recipe.empty() ? 0 : recipe[0]);
   for (std::size_t i = 1; i < recipe.size() && i < 6; ++i) {
      const unsigned r = recipe[i];
      switch (r % 9) {
      case 0: t = &L.get_pointer(*t); break;
      case 1: t = &L.get_reference(*t); break;
      case 2: t = &L.get_rvalue_reference(*t); break;
      case 3: t = &L.get_array(*t, *L.make_literal(L.int_type(), u8"8")); break;
      case 4: t = &L.get_pointer(L.get_qualified(Qualifiers{1u + (r / 9) % 7}, *t)); break;   // pointer to a qualified type
      case 5: t = L.make_class(*e.unit.global_region()); break;
      case 6: t = L.make_enum(*e.unit.global_region(), Enum::Kind::Scoped); break;
      case 7: {
         impl::Warehouse<Type> wh;
         wh.push_back(*t);
         t = &L.get_function(L.get_product(wh), L.void_type());
         break;
      }
      default: t = &L.get_ptr_to_member(L.int_type(), *t); break;
      }
   }
   return *t;
}

void check_node(vf::Outcome& out, impl::Lexicon& L, const Qualified& q, std::uintptr_t want_bits, const Type& T, const char* where)
{
   if (util::rep(q.qualifiers()) != want_bits)
      out.fail(std::string("C11:qualifiers-not-union:") + where, "qualifiers() is " + std::to_string(util::rep(q.qualifiers())) + ", the union is " + std::to_string(want_bits));
   if (util::rep(q.qualifiers()) == 0) out.fail(std::string("C11:empty-qualifiers:") + where, "a Qualified node with no qualifier");
   if (util::view<Qualified>(q.main_variant()) != nullptr) out.fail(std::string("C11:main-variant-qualified:") + where, "main_variant() is itself a Qualified node");
   if (!physically_same(q.main_variant(), T)) out.fail(std::string("C11:main-variant-not-innermost:") + where, "main_variant() is not the innermost unqualified type");
   if (q.first() != q.qualifiers() || !physically_same(q.second(), q.main_variant())) out.fail(std::string("C11:accessors:") + where, "first()/second() disagree with the named accessors");
   (void)L;
}

// Population of the (qualifiers, type) table around the chain under test: requests for unrelated qualified types, each
// checked like the chain's own (normal form, and the same request always answered by the same node), so that the
// table is large and has been rebalanced many times when the chain is looked at.
struct Population {
   std::map<std::pair<unsigned, unsigned>, const Qualified*> first;   // (type selector, set) -> first answer
};

const Type& population_type(Env& e, unsigned sel)
{
   auto& L = e.lex;
   const Type* t = &builtin(L, sel % 11);
   for (unsigned d = 0; d < (sel / 11) % 6; ++d) t = &L.get_pointer(*t);
   return *t;
}

void populate(Env& e, Population& pop, vf::Outcome& out, unsigned sel, unsigned set)
{
   sel %= 66;
   const std::uintptr_t bits = 1u + set % 7u;
   const Type& t = population_type(e, sel);
   const Qualified* q = nullptr;
   try {
      q = &e.lex.get_qualified(Qualifiers{bits}, t);
   }
   catch (const std::exception& ex) {
      out.fail("C11:nonempty-refused:population", ex.what());
      return;
   }
   check_node(out, e.lex, *q, bits, t, "population");
   auto ins = pop.first.emplace(std::make_pair(sel, unsigned(bits)), q);
   if (!ins.second && ins.first->second != q) out.fail("C11:same-request-different-node:population", "the same (qualifiers, type) was answered by two different nodes");
   out.count("population_requests");
}

void recheck(Env& e, Population& pop, vf::Outcome& out)
{
   for (auto& [key, node] : pop.first) {
      const Qualified* q = nullptr;
      try {
         q = &e.lex.get_qualified(Qualifiers{key.second}, population_type(e, key.first));
      }
      catch (const std::exception& ex) {
         out.fail("C11:nonempty-refused:population", ex.what());
         continue;
      }
      if (q != node) out.fail("C11:same-request-different-node:population", "the same (qualifiers, type) was answered by two different nodes after the table grew");
   }
}

void std_population(Env& e, Population& pop, vf::Outcome& out)
{
   for (unsigned i = 0; i < 462; ++i) {
      const unsigned k = (i * 185u + 7u) % 462u;   // 185 is coprime to 462: every (type, set) once, in a scrambled order
      populate(e, pop, out, k / 7, k % 7);
   }
}

// A qualifier set named by one generated byte: a non-empty subset of {const, volatile, restrict}; one byte value in
// eight also carries extension qualifiers (ipr::Qualifiers is an open set over a machine word: "kept abstract to allow
// extensions"), placed in the upper half of the word.
constexpr std::uintptr_t ext_mask = (std::uintptr_t(1) << 40) | (std::uintptr_t(1) << 33);
inline std::uintptr_t set_of(std::uint8_t b)
{
   std::uintptr_t bits = 1u + b % 7u;
   if (b >= 224) bits |= std::uintptr_t(1) << 40;
   if (b >= 240) bits |= std::uintptr_t(1) << 33;
   return bits;
}

// the empty set is refused -- over an unqualified and over an already qualified operand alike
void expect_empty_refused(vf::Outcome& out, impl::Lexicon& L, const Type& t, const char* where)
{
   bool refused = false;
   try {
      (void)&L.get_qualified(Qualifiers{}, t);
   }
   catch (const std::logic_error&) {
      refused = true;
   }
   catch (...) {
      refused = true;
      out.count("refused_with_non_logic_error");
   }
   if (!refused) out.fail(std::string("C11:empty-not-refused:") + where, "get_qualified({}, T) returned a node");
   out.count("empty_set_requests");
}

void run_in(Env& e, const Case& c, vf::Outcome& out)
{
   auto& L = e.lex;
   const Type& T = build(e, c.recipe);
   if (util::view<Qualified>(T) != nullptr) {
      out.fail("C11:harness:recipe-produced-qualified", "generator bug");
      return;
   }
   expect_empty_refused(out, L, T, "unqualified-operand");
   // a request with a non-empty set is answered, never refused
   auto qualify = [&](std::uintptr_t bits, const Type& t, const char* where) -> const Qualified* {
      try {
         return &L.get_qualified(Qualifiers{bits}, t);
      }
      catch (const std::exception& ex) {
         out.fail(std::string("C11:nonempty-refused:") + where, "get_qualified(" + std::to_string(bits) + ", T) raised: " + ex.what());
         return nullptr;
      }
   };

   // successive qualification
   std::uintptr_t all = 0;
   const Type* cur = &T;
   for (std::size_t i = 0; i < c.chain.size(); ++i) {
      const std::uintptr_t bits = set_of(c.chain[i]);
      all |= bits;
      const Qualified* q = qualify(bits, *cur, "chain");
      if (!q) return;
      check_node(out, L, *q, all, T, "chain");
      const Qualified* direct = qualify(all, T, "direct");
      if (!direct) return;
      if (!physically_same(*q, *direct)) out.fail("C11:normal-form:chain", "qualifying step " + std::to_string(i) + " did not yield the node of get_qualified(union, T)");
      check_node(out, L, *direct, all, T, "direct");
      cur = q;
      expect_empty_refused(out, L, *cur, "qualified-operand");
   }
   if (c.chain.empty()) return;
   // the same union reached another way: each regroup step contributes the part of the union it names (skipped if empty),
   // and a final step adds whatever is still missing
   std::uintptr_t got = 0;
   const Type* other = &T;
   for (auto b : c.regroup) {
      const std::uintptr_t bits = ((b % 8u) | (b >= 128 ? ext_mask : 0)) & all;
      if (bits == 0) continue;
      got |= bits;
      other = qualify(bits, *other, "regroup");
      if (!other) return;
   }
   if (got != all) other = qualify(all & ~got, *other, "regroup");
   if (!other) return;
   if (!physically_same(*other, *cur)) out.fail("C11:normal-form:regroup", "a different order / grouping of the same qualifiers gave a different node");
   // re-qualifying with a subset of what is already there changes nothing
   const Qualified* again = qualify(all & set_of(c.chain[0]), *cur, "idempotent");
   if (!again) return;
   if (!physically_same(*again, *cur)) out.fail("C11:normal-form:idempotent", "re-applying qualifiers already present gave a different node");
   out.nontrivial = c.chain.size() >= 2;
   out.count("chain_len_" + std::to_string(std::min<std::size_t>(c.chain.size(), 9)));
   out.count((all & 7) == 7 ? "union_cvr" : "union_partial");
   if (all & ext_mask) out.count("chains_with_extension_qualifiers");
}

vf::Outcome run_case(const Case& c, const vf::Options&)
{
   vf::Outcome out;
   Env e;
   Population pop;
   if (c.std_prelude) std_population(e, pop, out);
   for (std::size_t i = 0; i + 1 < c.prelude.size(); i += 2) populate(e, pop, out, c.prelude[i], c.prelude[i + 1]);
   run_in(e, c, out);
   recheck(e, pop, out);
   out.classes["max_population"] = long(pop.first.size());
   return out;
}

rc::Gen<Case> generator(const vf::Options&)
{
   using namespace rc;
   return gen::map(gen::tuple(gen::container<std::vector<std::uint8_t>>(vf::byte()), gen::container<std::vector<std::uint8_t>>(vf::byte()),
                              gen::container<std::vector<std::uint8_t>>(vf::byte()), gen::scale(8.0, gen::container<std::vector<std::uint8_t>>(vf::byte())), vf::byte()),
                   [](const std::tuple<std::vector<std::uint8_t>, std::vector<std::uint8_t>, std::vector<std::uint8_t>, std::vector<std::uint8_t>, std::uint8_t>& t) {
                      Case c;
                      c.recipe = std::get<0>(t);
                      c.chain = std::get<1>(t);
                      c.regroup = std::get<2>(t);
                      c.prelude = std::get<3>(t);
                      c.std_prelude = std::get<4>(t) % 8 == 0;
                      if (c.recipe.size() > 6) c.recipe.resize(6);
                      if (c.chain.size() > 12) c.chain.resize(12);
                      if (c.regroup.size() > 8) c.regroup.resize(8);
                      return c;
                   });
}

void exhaustive(const vf::Options& o, vf::Tally& tally)
{
   // all sequences of 1..4 non-empty subsets (7 + 49 + 343 + 2401 = 2800), for a family of recipes, all in ONE Lexicon per
   // recipe so that later chains meet the nodes of earlier ones
   const int recipes = int(o.get("recipes", 20));
   long n = 0;
   for (int r = 0; r < recipes; ++r) {
      Env e;
      Population pop;
      {
         vf::Outcome warm;
         std_population(e, pop, warm);
         Case c0;
         c0.std_prelude = 1;
         vf::account(o, tally, to_text(c0), "fixed population of the (qualifiers, type) table: 66 types x 7 sets in a scrambled order", warm);
      }
      std::vector<std::uint8_t> recipe;
      for (int i = 0; i <= r % 5; ++i) recipe.push_back(std::uint8_t(r * 37 + i * 11 + r / 5));
      for (int len = 1; len <= 4; ++len) {
         std::vector<std::uint8_t> chain(len, 0);
         for (;;) {
            Case c;
            c.recipe = recipe;
            c.chain = chain;
            c.regroup = {std::uint8_t(chain.back() + 1), std::uint8_t(4), std::uint8_t(chain[0] + 1)};
            c.std_prelude = 1;
            vf::Outcome out;
            vf::put_current(to_text(c));
            try {
               run_in(e, c, out);
            }
            catch (const std::exception& ex) {
               out.fail(std::string("C11:unexpected-exception:") + vf::sanitize(typeid(ex).name()), ex.what());
            }
            if (n % 400 == 399) recheck(e, pop, out);
            vf::account(o, tally, to_text(c), sample(c), out);
            ++n;
            int i = len - 1;
            while (i >= 0 && ++chain[i] == 7) chain[i--] = 0;
            if (i < 0) break;
         }
      }
   }
   tally.notes["exhaustive_part"] = "all 2800 sequences of 1..4 non-empty qualifier subsets x " + std::to_string(recipes) + " generated unqualified types = " + std::to_string(n) + " cases";
   tally.exhaustive = true;
}

}   // namespace

int main(int argc, char** argv)
{
   vf::Hooks<Case> hk;
   hk.generator = generator;
   hk.run = run_case;
   hk.to_text = to_text;
   hk.from_text = from_text;
   hk.sample = sample;
   hk.exhaustive = exhaustive;
   return vf::drive<Case>(argc, argv, "C11", hk);
}
