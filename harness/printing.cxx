#include "printing.hpp"
#include "interp_util.hpp"

#include <atomic>
#include <condition_variable>
#include <mutex>
#include <pthread.h>
#include <sstream>
#include <streambuf>
#include <unordered_set>

namespace eng {
using namespace ipr;

namespace {

struct Runaway {
   const char* why;
};
struct TooBig { };

constexpr std::size_t stack_bytes = std::size_t(64) << 20;   // thread stack
constexpr std::size_t depth_limit = std::size_t(6) << 20;    // far beyond what an acyclic graph of script depth needs (the deepest legitimate print is reported as max_print_stack_kib); ASan cannot unwind more than 64 MiB
constexpr std::size_t byte_budget = std::size_t(2) << 20;

struct GuardBuf : std::streambuf {
   std::string data;
   const char* base = nullptr;
   std::size_t max_depth = 0;
   std::size_t limit = depth_limit;
   void check()
   {
      char probe;
      const std::size_t depth = std::size_t(base > &probe ? base - &probe : &probe - base);
      if (depth > max_depth) max_depth = depth;
      if (depth > limit) throw Runaway{"stack depth"};
      if (data.size() > byte_budget) throw TooBig{};
   }
   int_type overflow(int_type c) override
   {
      check();
      if (c != traits_type::eof()) data.push_back(char(c));
      return c;
   }
   std::streamsize xsputn(const char* s, std::streamsize n) override
   {
      check();
      data.append(s, std::size_t(n));
      return n;
   }
};

}   // namespace

std::atomic<bool>& inline_printing()
{
   static std::atomic<bool> flag{false};
   return flag;
}

namespace {

struct Job {
   const Lexicon* lex;
   PrintWhat what;
   const void* target;
   bool locations;
   PrintResult* out;
};

std::string state_of(std::ostream& os)
{
   std::ostringstream s;
   s << "flags=" << std::hex << os.flags() << " fill=" << int(os.fill()) << std::dec << " width=" << os.width() << " precision=" << os.precision();
   return s.str();
}

void* run_job(void* p)
{
   Job& j = *static_cast<Job*>(p);
   PrintResult& r = *j.out;
   GuardBuf buf;
   char anchor;
   buf.base = &anchor;
   if (inline_printing().load()) buf.limit = std::size_t(2) << 20;   // on the caller's ordinary stack
   std::ostream os(&buf);
   os.exceptions(std::ios::badbit | std::ios::failbit);
   const std::string before = state_of(os);
   Printer pp(*j.lex, os);
   pp.print_locations = j.locations;
   r.indent_before = pp.indent();
   try {
      switch (j.what) {
      case P_UNIT: pp << *static_cast<const Translation_unit*>(j.target); break;
      case P_DECL: pp << xpr_decl(*static_cast<const Expr*>(j.target)); break;
      case P_TYPE: pp << xpr_type(*static_cast<const Type*>(static_cast<const Expr*>(j.target))); break;
      case P_EXPR: pp << xpr_expr(*static_cast<const Expr*>(j.target)); break;
      case P_STMT: pp << xpr_stmt(*static_cast<const Expr*>(j.target)); break;
      }
      r.status = PrintResult::Completed;
   }
   catch (const Runaway& x) {
      r.status = PrintResult::Runaway;
      r.what = x.why;
   }
   catch (const TooBig&) {
      r.status = PrintResult::TooBig;
   }
   catch (const std::logic_error& x) {
      r.status = PrintResult::Refused;
      r.what = x.what();
   }
   catch (const std::exception& x) {
      r.status = PrintResult::Foreign;
      r.what = std::string(typeid(x).name()) + ": " + x.what();
   }
   catch (...) {
      r.status = PrintResult::Foreign;
      r.what = "non-std exception";
   }
   r.indent_after = pp.indent();
   const std::string after = state_of(os);
   r.stream_state_changed = before != after;
   if (r.stream_state_changed) r.stream_state_detail = before + " -> " + after;
   r.text = buf.data;
   r.max_stack = buf.max_depth;
   // numbers written through the same printer after the node must be decimal
   if (r.status == PrintResult::Completed || r.status == PrintResult::Refused) {
      const std::size_t mark = buf.data.size();
      try {
         pp << Decl_position{100};
         pp << ' ';
         pp << Mapping_level{64};
         pp << ' ';
         pp << 255u;
         r.probe = buf.data.substr(mark);
      }
      catch (...) {
         r.probe = "<probe failed>";
      }
   }
   return nullptr;
}

const std::unordered_set<std::string>& back_links()
{
   static const std::unordered_set<std::string> s = {"enclosing",    "owner",           "master",   "decl_set",  "home_region",      "lexical_region", "from",
                                                     "iteration",    "primary_template", "definition", "specializations", "parent_module", "category",       "resolution",
                                                     "implementation", "nominated_scope"};
   return s;
}

void collect_refs(const Val& v, std::vector<const void*>& out)
{
   if (v.kind == Val::Ref && v.is_node) out.push_back(v.ref);
   else if (v.kind == Val::Seq)
      for (auto& x : v.seq) collect_refs(x, out);
}

}   // namespace

bool printable_acyclic(const Entity& root, std::size_t* visited_out, std::string* why, std::unordered_set<const void*>* known_good)
{
   // iterative DFS with colours over node-valued fields; non-node objects are leaves here
   enum { White, Grey, Black };
   std::unordered_map<const void*, int> colour;
   struct Kid {
      const void* node;
      const char* via;
   };
   struct Frame {
      const void* node;
      std::vector<Kid> kids;
      std::size_t next;
   };
   auto kids_of = [&](const void* p) {
      std::vector<Kid> ks;
      const Node* self = static_cast<const Node*>(p);
      // Self-references the library itself builds are not client-made cycles; the printer has to cope with them:
      //  - a built-in type denotes itself (expr() is the type), so it is a leaf;
      //  - a Type_id only exists as the self-name of a composite type and designates that very type;
      if (self->category == Category_code::Type_id) return ks;
      if (self->category == Category_code::As_type && denote_builtin_type(*static_cast<const As_type*>(static_cast<const Type*>(static_cast<const Expr*>(self))))) return ks;
      Obs o = observe(Entity{Aux::None, p});
      for (auto& f : o) {
         if (back_links().count(f.name)) continue;
         //  - an enumerator is typed by the enumeration that lists it;
         if (self->category == Category_code::Enumerator && f.name == "type") continue;
         if (f.name == "type" && f.val.kind == Val::Ref) {
            //  - nullptr is typed decltype(nullptr): a Decltype over the very node.
            const Node* t = static_cast<const Node*>(f.val.ref);
            if (t->category == Category_code::Decltype) {
               auto dt = static_cast<const Decltype*>(static_cast<const Type*>(static_cast<const Expr*>(t)));
               if (static_cast<const Node*>(&dt->expr()) == self) continue;
            }
         }
         std::vector<const void*> refs;
         collect_refs(f.val, refs);
         const char* via = World::intern_static(f.name);
         for (auto r : refs) ks.push_back({r, via});
      }
      return ks;
   };
   if (root.aux != Aux::None) return true;
   if (known_good && known_good->count(root.ptr)) return true;
   std::vector<Frame> stack;
   stack.push_back({root.ptr, kids_of(root.ptr), 0});
   colour[root.ptr] = Grey;
   std::size_t visited = 1;
   while (!stack.empty()) {
      Frame& f = stack.back();
      if (f.next == f.kids.size()) {
         colour[f.node] = Black;
         if (known_good) known_good->insert(f.node);   // everything below it was explored without meeting a cycle
         stack.pop_back();
         continue;
      }
      const Kid k = f.kids[f.next++];
      if (known_good && known_good->count(k.node)) continue;
      auto it = colour.find(k.node);
      if (it == colour.end()) {
         colour[k.node] = Grey;
         ++visited;
         if (visited > 20000) {
            if (visited_out) *visited_out = visited;
            if (why) *why = "too-large";
            return false;   // too large to print within budget anyway
         }
         stack.push_back({k.node, kids_of(k.node), 0});
      }
      else if (it->second == Grey) {
         if (visited_out) *visited_out = visited;
         if (why) {
            // the closing edge: <category of the source>.<accessor> -> <category of the target>
            *why = std::string(category_name(static_cast<const Node*>(f.node)->category)) + "." + k.via + "->" +
                   category_name(static_cast<const Node*>(k.node)->category);
         }
         return false;
      }
   }
   if (visited_out) *visited_out = visited;
   return true;
}

namespace {
// One long-lived big-stack thread per calling thread: creating a 64 MiB stack for every print dominated the run time.
struct Worker {
   pthread_t th{};
   bool started = false;
   std::mutex m;
   std::condition_variable cv;
   Job* job = nullptr;
   bool quit = false;
   static void* loop(void* p)
   {
      Worker& w = *static_cast<Worker*>(p);
      std::unique_lock<std::mutex> lk(w.m);
      for (;;) {
         w.cv.wait(lk, [&] { return w.job != nullptr || w.quit; });
         if (w.quit) return nullptr;
         Job* j = w.job;
         lk.unlock();
         run_job(j);
         lk.lock();
         w.job = nullptr;
         w.cv.notify_all();
      }
   }
   bool start()
   {
      if (started) return true;
      pthread_attr_t attr;
      pthread_attr_init(&attr);
      pthread_attr_setstacksize(&attr, stack_bytes);
      started = pthread_create(&th, &attr, loop, this) == 0;
      pthread_attr_destroy(&attr);
      return started;
   }
   void run(Job& j)
   {
      if (!start()) {
         run_job(&j);   // fall back to the current thread
         return;
      }
      std::unique_lock<std::mutex> lk(m);
      job = &j;
      cv.notify_all();
      cv.wait(lk, [&] { return job == nullptr; });
   }
   ~Worker()
   {
      if (!started) return;
      {
         std::lock_guard<std::mutex> lk(m);
         quit = true;
      }
      cv.notify_all();
      pthread_join(th, nullptr);
   }
};
}   // namespace

PrintResult guarded_print(const Lexicon& lex, PrintWhat what, const void* target, bool locations)
{
   PrintResult r;
   Job j{&lex, what, target, locations, &r};
   if (inline_printing().load()) {
      run_job(&j);
      return r;
   }
   thread_local Worker worker;
   worker.run(j);
   return r;
}

namespace {
void do_print(World& w, PrintRecord rec, const Entity& root)
{
   std::string why;
   if (!printable_acyclic(root, nullptr, &why, &w.acyclic_known)) {
      rec.result.status = PrintResult::SkippedCyclic;
      w.findings.count("prints_skipped_cyclic");
      w.findings.count("cyclic_via_" + why);
   }
   else if (w.counters["runaway_prints"] >= 2) {
      // every runaway print unwinds tens of MiB of stack; two per case are enough to report it
      rec.result.status = PrintResult::SkippedCyclic;
      w.findings.count("prints_skipped_after_runaway");
   }
   else {
      rec.result = guarded_print(w.L(), rec.what, rec.target, rec.locations);
      w.findings.count("prints");
      if (rec.result.status == PrintResult::Runaway) ++w.counters["runaway_prints"];
      else if (long(rec.result.max_stack >> 10) > w.counters["max_print_stack_kib"]) w.counters["max_print_stack_kib"] = long(rec.result.max_stack >> 10);
   }
   w.prints.push_back(std::move(rec));
}
}   // namespace

void print_op(World& w, const Op& op)
{
   PrintRecord rec;
   rec.locations = op.c % 2 != 0;
   Entity root;
   switch (op.a % 8) {
   case 0:
   case 1: {
      auto it = w.units.begin();
      std::advance(it, op.b % w.units.size());
      rec.what = P_UNIT;
      rec.target = static_cast<const Translation_unit*>(&*it);
      root = ent(it->global_namespace());
      break;
   }
   case 2: {
      if (w.decls.empty()) return;
      const Decl* d = World::pick(w.decls, op.b).decl;
      rec.what = P_DECL;
      rec.target = static_cast<const Expr*>(d);
      rec.cat = d->category;
      root = ent(*d);
      break;
   }
   case 3: {
      const Type* t = World::pick(w.types, op.b);
      rec.what = P_TYPE;
      rec.target = static_cast<const Expr*>(t);
      rec.cat = t->category;
      root = ent(*t);
      break;
   }
   case 4:
   case 5: {
      const Expr* e = World::pick(w.exprs, op.b + 256u * (op.d % 4));
      rec.what = op.a % 8 == 4 ? P_EXPR : (op.e % 2 ? P_DECL : P_STMT);
      rec.target = e;
      rec.cat = e->category;
      root = ent(*e);
      break;
   }
   default: {
      if (w.stmts.empty()) return;
      const Stmt* s = World::pick(w.stmts, op.b).stmt;
      rec.what = P_STMT;
      rec.target = static_cast<const Expr*>(s);
      rec.cat = s->category;
      root = ent(*s);
      break;
   }
   }
   do_print(w, std::move(rec), root);
   w.note("print");
}

// Offer what the script built to the printer in every role: each unit (locations on and off), each declaration,
// statement and type, each expression as expression and alternately as declaration / statement.  Pools larger
// than `cap_per_pool` are sampled with an even stride.
void print_sweep(World& w, std::size_t cap_per_pool)
{
   auto stride = [&](std::size_t n) { return n <= cap_per_pool ? std::size_t(1) : (n + cap_per_pool - 1) / cap_per_pool; };
   bool loc = false;
   for (auto& u : w.units)
      for (int l = 0; l < 2; ++l) {
         PrintRecord rec;
         rec.what = P_UNIT;
         rec.target = static_cast<const Translation_unit*>(&u);
         rec.locations = l != 0;
         do_print(w, std::move(rec), ent(u.global_namespace()));
      }
   for (std::size_t i = 0, st = stride(w.decls.size()); i < w.decls.size(); i += st) {
      PrintRecord rec;
      rec.what = P_DECL;
      rec.target = static_cast<const Expr*>(w.decls[i].decl);
      rec.cat = w.decls[i].decl->category;
      rec.locations = (loc = !loc);
      do_print(w, std::move(rec), ent(*w.decls[i].decl));
   }
   for (std::size_t i = 0, st = stride(w.stmts.size()); i < w.stmts.size(); i += st) {
      PrintRecord rec;
      rec.what = P_STMT;
      rec.target = static_cast<const Expr*>(w.stmts[i].stmt);
      rec.cat = w.stmts[i].stmt->category;
      rec.locations = (loc = !loc);
      do_print(w, std::move(rec), ent(*w.stmts[i].stmt));
   }
   for (std::size_t i = 0, st = stride(w.types.size()); i < w.types.size(); i += st) {
      PrintRecord rec;
      rec.what = P_TYPE;
      rec.target = static_cast<const Expr*>(w.types[i]);
      rec.cat = w.types[i]->category;
      do_print(w, std::move(rec), ent(*w.types[i]));
   }
   for (std::size_t i = 0, st = stride(w.exprs.size()), k = 0; i < w.exprs.size(); i += st, ++k) {
      PrintRecord rec;
      rec.what = k % 4 == 1 ? P_STMT : (k % 4 == 3 ? P_DECL : P_EXPR);
      rec.target = w.exprs[i];
      rec.cat = w.exprs[i]->category;
      rec.locations = (loc = !loc);
      do_print(w, std::move(rec), ent(*w.exprs[i]));
   }
}

}   // namespace eng
