#include "engine_gen.hpp"

namespace eng {

rc::Gen<Case> case_gen(const std::string& prof, int aux_bytes)
{
   using namespace rc;
   const int total = profile(prof).total;
   auto op_gen = gen::map(gen::tuple(vf::in_range<int>(0, total), vf::byte(), vf::byte(), vf::byte(), vf::byte(), vf::byte(), vf::byte()),
                          [](const std::tuple<int, std::uint8_t, std::uint8_t, std::uint8_t, std::uint8_t, std::uint8_t, std::uint8_t>& t) {
                             Op op;
                             op.code = std::uint16_t(std::get<0>(t));
                             op.a = std::get<1>(t); op.b = std::get<2>(t); op.c = std::get<3>(t);
                             op.d = std::get<4>(t); op.e = std::get<5>(t); op.f = std::get<6>(t);
                             return op;
                          });
   return gen::map(gen::tuple(gen::container<std::vector<Op>>(op_gen), gen::container<std::vector<std::uint8_t>>(std::size_t(aux_bytes), vf::byte())),
                   [prof](const std::tuple<std::vector<Op>, std::vector<std::uint8_t>>& t) {
                      Case c;
                      c.profile = prof;
                      c.ops = std::get<0>(t);
                      c.aux = std::get<1>(t);
                      return c;
                   });
}

}   // namespace eng
