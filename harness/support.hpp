// Shared plumbing for every property binary: options, signature tallies,
// evidence JSON, replay files, and the hunt loop around rapidcheck.
//
// A property binary provides a `Case` type with
//     std::string to_text(const Case&)        -- replay file body
//     bool        from_text(const std::string&, Case&)
//     rc::Gen<Case> generator(const Options&)
//     Outcome     run_case(const Case&, const Options&)
// and calls `vf::drive<Case>(argc, argv, "Cxx", ...)`.
#pragma once

#include <rapidcheck.h>

#include "outcome.hpp"

#include <algorithm>
#include <chrono>
#include <cstdint>
#include <cstdio>
#include <cstdlib>
#include <cstring>
#include <fstream>
#include <functional>
#include <map>
#include <set>
#include <sstream>
#include <string>
#include <typeinfo>
#include <vector>
#include <fcntl.h>
#include <unistd.h>

namespace vf {

// ---------------------------------------------------------------- options --
struct Options {
   std::string prop;
   std::string tier = "quick";
   std::uint64_t seed = 1;
   int cases = 1000;
   int size = 50;
   int shard = 0;
   int max_rounds = 6;          // how many distinct new signatures one run reports
   double budget_s = 1e9;       // wall-clock guard: hitting it means "inconclusive", never a violation
   std::string out;             // evidence fragment (JSON)
   std::string replay;          // replay file: bypasses generation entirely
   std::string replay_dir;      // where minimal failing cases are written
   std::set<std::string> known; // signatures of open known findings (excluded by construction)
   std::map<std::string, std::string> extra;
   long get(const char* k, long dflt) const
   {
      auto p = extra.find(k);
      return p == extra.end() ? dflt : std::strtol(p->second.c_str(), nullptr, 10);
   }
};

inline Options parse_options(int argc, char** argv, const char* prop)
{
   Options o;
   o.prop = prop;
   for (int i = 1; i < argc; ++i) {
      std::string a = argv[i];
      auto next = [&]() -> std::string { return i + 1 < argc ? argv[++i] : ""; };
      if (a == "--tier") o.tier = next();
      else if (a == "--seed") o.seed = std::strtoull(next().c_str(), nullptr, 10);
      else if (a == "--cases") o.cases = std::atoi(next().c_str());
      else if (a == "--size") o.size = std::atoi(next().c_str());
      else if (a == "--shard") o.shard = std::atoi(next().c_str());
      else if (a == "--rounds") o.max_rounds = std::atoi(next().c_str());
      else if (a == "--budget") o.budget_s = std::atof(next().c_str());
      else if (a == "--out") o.out = next();
      else if (a == "--replay") o.replay = next();
      else if (a == "--replay-dir") o.replay_dir = next();
      else if (a == "--known") o.known.insert(next());   // one signature per --known (signatures may contain commas)
      else if (a.rfind("--x-", 0) == 0) o.extra[a.substr(4)] = next();
   }
   return o;
}

struct Violation {
   std::string signature;
   std::string message;
   std::string replay_path;
};

struct Tally {
   long evaluations = 0;
   long shrink_steps = 0;
   long skipped_budget = 0;
   std::set<std::uint64_t> nontrivial_hashes;
   std::map<std::string, long> classes;
   std::map<std::string, long> class_cases;     // number of cases in which the class counter was > 0
   std::map<std::string, long> excluded_hits;
   std::map<std::string, std::string> excluded_example;
   std::vector<std::string> samples;
   std::vector<Violation> violations;
   bool exhaustive = false;
   std::map<std::string, std::string> notes;    // free-form strings for the evidence
   std::set<std::string> excluded;              // open known findings + signatures already reported by this run
};

// counters whose name starts with "max_" are merged by maximum, all others are summed
inline void merge_class(std::map<std::string, long>& m, const std::string& k, long v)
{
   if (k.rfind("max_", 0) == 0) m[k] = std::max(m[k], v);
   else m[k] += v;
}

inline void write_file(const std::string& path, const std::string& body)
{
   std::ofstream f(path, std::ios::binary | std::ios::trunc);
   f << body;
}

inline bool read_file(const std::string& path, std::string& body)
{
   std::ifstream f(path, std::ios::binary);
   if (!f) return false;
   std::stringstream ss;
   ss << f.rdbuf();
   body = ss.str();
   return true;
}

inline std::string sanitize(const std::string& s)
{
   std::string r;
   for (char c : s)
      r += (std::isalnum(static_cast<unsigned char>(c)) || c == '-' || c == '_' || c == '.') ? c : '_';
   return r;
}

inline void write_fragment(const Options& o, const Tally& t, double wall)
{
   if (o.out.empty()) return;
   std::ostringstream js;
   js << "{\n \"evaluations\": " << t.evaluations << ",\n \"shrink_steps\": " << t.shrink_steps
      << ",\n \"skipped_budget\": " << t.skipped_budget
      << ",\n \"distinct_nontrivial\": " << t.nontrivial_hashes.size()
      << ",\n \"exhaustive\": " << (t.exhaustive ? "true" : "false")
      << ",\n \"wall_s\": " << wall << ",\n \"classes\": {";
   bool first = true;
   for (auto& [k, v] : t.classes) {
      js << (first ? "" : ", ") << jstr(k) << ": " << v;
      first = false;
   }
   js << "},\n \"class_cases\": {";
   first = true;
   for (auto& [k, v] : t.class_cases) {
      js << (first ? "" : ", ") << jstr(k) << ": " << v;
      first = false;
   }
   js << "},\n \"excluded_hits\": {";
   first = true;
   for (auto& [k, v] : t.excluded_hits) {
      js << (first ? "" : ", ") << jstr(k) << ": " << v;
      first = false;
   }
   js << "},\n \"excluded_example\": {";
   first = true;
   for (auto& [k, v] : t.excluded_example) {
      js << (first ? "" : ", ") << jstr(k) << ": " << jstr(v);
      first = false;
   }
   js << "},\n \"notes\": {";
   first = true;
   for (auto& [k, v] : t.notes) {
      js << (first ? "" : ", ") << jstr(k) << ": " << jstr(v);
      first = false;
   }
   js << "},\n \"samples\": [";
   first = true;
   for (auto& s : t.samples) {
      js << (first ? "" : ", ") << jstr(s);
      first = false;
   }
   js << "],\n \"violations\": [";
   first = true;
   for (auto& v : t.violations) {
      js << (first ? "" : ", ") << "{\"signature\": " << jstr(v.signature) << ", \"message\": " << jstr(v.message)
         << ", \"replay\": " << jstr(v.replay_path) << "}";
      first = false;
   }
   js << "]\n}\n";
   write_file(o.out, js.str());
   // distinct hashes, for merging shards without double counting
   std::ofstream h(o.out + ".hashes", std::ios::binary | std::ios::trunc);
   for (auto x : t.nontrivial_hashes)
      h.write(reinterpret_cast<const char*>(&x), sizeof x);
}

// The case about to run is written here first, so that a crash (sanitizer
// abort, stack overflow) leaves its input behind for the driver to minimise.
struct CurrentCase {
   int fd = -1;
   explicit CurrentCase(const std::string& path)
   {
      if (!path.empty()) fd = ::open(path.c_str(), O_CREAT | O_WRONLY | O_TRUNC, 0644);
   }
   void put(const std::string& body)
   {
      if (fd < 0) return;
      if (::ftruncate(fd, 0) != 0) return;
      if (::pwrite(fd, body.data(), body.size(), 0) < 0) return;
   }
   ~CurrentCase()
   {
      if (fd >= 0) ::close(fd);
   }
};

// the running binary's current-case file (set by drive); enumerated parts record their case here too
inline CurrentCase*& current_case_slot()
{
   static CurrentCase* p = nullptr;
   return p;
}
inline void put_current(const std::string& body)
{
   if (auto p = current_case_slot()) p->put(body);
}

inline double now_s()
{
   using namespace std::chrono;
   return duration<double>(steady_clock::now().time_since_epoch()).count();
}

// Book-keeping for one enumerated (non-random) case; used by the exhaustive
// parts.  Enumeration goes from small to large, so the first case showing a
// signature is already minimal and is written out as the replay file.
inline void account(const Options& o, Tally& tally, const std::string& text, const std::string& sample,
                    const Outcome& out)
{
   ++tally.evaluations;
   if (out.nontrivial) {
      tally.nontrivial_hashes.insert(fnv1a(text));
      if (tally.samples.size() < 2) tally.samples.push_back(sample);
   }
   for (auto& [k, v] : out.classes) {
      merge_class(tally.classes, k, v);
      if (v > 0) ++tally.class_cases[k];
   }
   for (auto& f : out.findings) {
      if (tally.excluded.count(f.signature)) {
         if (++tally.excluded_hits[f.signature] == 1) tally.excluded_example[f.signature] = f.message;
         continue;
      }
      // one file per (signature, shard): shards of one run share the directory and may find the same signature at the same time
      std::string path = (o.replay_dir.empty() ? std::string(".") : o.replay_dir) + "/" + sanitize(f.signature) + ".s" + std::to_string(o.shard) + ".case";
      write_file(path, text);
      tally.violations.push_back({f.signature, f.message, path});
      tally.excluded.insert(f.signature);
   }
}

// One case of an enumerated part: saved first (a crash leaves it behind for the driver), and an exception escaping it
// becomes a finding of its own instead of ending the process.
template<class Run, class Case>
inline Outcome run_enumerated(const char* prop, Run run, const Case& c, const Options& o, const std::string& text)
{
   put_current(text);
   try {
      return run(c, o);
   }
   catch (const std::exception& e) {
      Outcome out;
      out.fail(std::string(prop) + ":unexpected-exception:" + sanitize(typeid(e).name()), e.what());
      return out;
   }
}

// ------------------------------------------------------------------ drive --
// Hunt loop: run generated cases; a case fails iff it produces a signature
// outside the excluded set.  rapidcheck shrinks it (only steps that keep the
// *same* signature are accepted), the minimal case becomes a replay file, the
// signature is excluded, and the search continues with the next round so one
// run can report several independent violations.
template<class Case>
struct Hooks {
   std::function<rc::Gen<Case>(const Options&)> generator;
   std::function<Outcome(const Case&, const Options&)> run;
   std::function<std::string(const Case&)> to_text;
   std::function<bool(const std::string&, Case&)> from_text;
   std::function<std::string(const Case&)> sample;           // short human rendering for the evidence
   std::function<void(const Options&, Tally&)> exhaustive;   // optional enumerated part, run before the random part
};

template<class Case>
int drive(int argc, char** argv, const char* prop, Hooks<Case> hk)
{
   Options o = parse_options(argc, argv, prop);
   // An exception escaping a case is never silently turned into a pass (nor left to rapidcheck, which would
   // treat it as an anonymous failure): it becomes a finding of its own.
   {
      auto inner = hk.run;
      const std::string pid = prop;
      hk.run = [inner, pid](const Case& c, const Options& opt) {
         try {
            return inner(c, opt);
         }
         catch (const std::exception& e) {
            Outcome out;
            out.fail(pid + ":unexpected-exception:" + sanitize(typeid(e).name()), e.what());
            return out;
         }
      };
   }
   const double t0 = now_s();
   Tally tally;

   if (!o.replay.empty()) {
      std::string body;
      Case c{};
      if (!read_file(o.replay, body) || !hk.from_text(body, c)) {
         std::fprintf(stderr, "cannot read replay file %s\n", o.replay.c_str());
         return 2;
      }
      Outcome out = hk.run(c, o);
      tally.evaluations = 1;
      if (out.nontrivial) tally.nontrivial_hashes.insert(fnv1a(hk.to_text(c)));
      tally.samples.push_back(hk.sample ? hk.sample(c) : hk.to_text(c));
      for (auto& f : out.findings) {
         std::printf("SIG %s %s\n", f.signature.c_str(), f.message.c_str());
         tally.violations.push_back({f.signature, f.message, o.replay});
      }
      for (auto& [k, v] : out.classes) merge_class(tally.classes, k, v);
      write_fragment(o, tally, now_s() - t0);
      return 0;
   }

   CurrentCase current(o.out.empty() ? std::string() : o.out + ".current");
   current_case_slot() = &current;
   tally.excluded = o.known;
   if (hk.exhaustive && o.shard == 0) hk.exhaustive(o, tally);

   std::set<std::string>& excluded = tally.excluded;
   const bool survey = o.get("survey", 0) != 0;   // triage aid: tally every signature, never fail
   std::string target;       // signature being shrunk, empty while searching
   Case last_fail{};
   std::string last_msg;
   const auto gen = hk.generator(o);

   for (int round = 0; round < o.max_rounds && o.cases > 0; ++round) {
      rc::detail::TestParams params;
      params.seed = o.seed * 1000003ull + std::uint64_t(o.shard) * 7919ull + std::uint64_t(round) * 104729ull;
      params.maxSuccess = o.cases;
      params.maxSize = o.size;
      rc::detail::TestMetadata meta;
      meta.id = prop;
      meta.description = prop;
      target.clear();
      long shrink_steps_this_round = 0;
      double shrink_deadline = 0;   // bounds the shrinking effort of one round (never the verdict)
      auto body = [&]() {
         const bool shrinking = !target.empty();
         if (!shrinking && now_s() - t0 > o.budget_s) {
            ++tally.skipped_budget;
            return;
         }
         Case c = *gen;
         // bounded shrinking effort: past the limit every candidate counts as passing (without being run), so rapidcheck
         // settles on the smallest failing case found so far
         if (shrinking && (++shrink_steps_this_round > o.get("shrinklimit", 4000) || now_s() > shrink_deadline)) return;
         const std::string text = hk.to_text(c);
         current.put(text);
         Outcome out = hk.run(c, o);
         if (shrinking) {
            ++tally.shrink_steps;
            for (auto& f : out.findings)
               if (f.signature == target) {
                  last_fail = c;
                  last_msg = f.message;
                  RC_FAIL(f.signature);
               }
            return;
         }
         ++tally.evaluations;
         if (out.nontrivial) {
            tally.nontrivial_hashes.insert(fnv1a(text));
            if (tally.samples.size() < 3) tally.samples.push_back(hk.sample ? hk.sample(c) : text);
         }
         for (auto& [k, v] : out.classes) {
            merge_class(tally.classes, k, v);
            if (v > 0) ++tally.class_cases[k];
         }
         for (auto& f : out.findings) {
            if (survey || excluded.count(f.signature)) {
               if (++tally.excluded_hits[f.signature] == 1) tally.excluded_example[f.signature] = f.message + "\n" + text;
               continue;
            }
            target = f.signature;
            last_fail = c;
            last_msg = f.message;
            shrink_deadline = now_s() + double(o.get("shrinkseconds", 45));
            RC_FAIL(f.signature);
         }
      };
      auto result = rc::detail::checkTestable(body, meta, params);
      if (result.template is<rc::detail::SuccessResult>()) break;
      if (result.template is<rc::detail::FailureResult>() && !target.empty()) {
         std::string path = (o.replay_dir.empty() ? std::string(".") : o.replay_dir) + "/" + sanitize(target) + ".s" + std::to_string(o.shard) + ".case";
         write_file(path, hk.to_text(last_fail));
         tally.violations.push_back({target, last_msg, path});
         std::fprintf(stderr, "[%s] new signature %s -- %s\n", prop, target.c_str(), last_msg.c_str());
         excluded.insert(target);
         continue;
      }
      // gave up / error: report as a note, never as a violation
      std::ostringstream os;
      rc::detail::printResultMessage(result, os);
      tally.notes["rapidcheck"] = os.str();
      break;
   }
   if (tally.samples.empty()) tally.notes["samples"] = "no non-trivial case in this run";
   write_fragment(o, tally, now_s() - t0);
   return 0;
}

// ------------------------------------------------------------------- fuzz --
// libFuzzer mode (thorough tiers): the same Hooks -- same run function, same oracles, same signatures -- driven by
// coverage-guided mutation of bytes instead of rapidcheck.  The options arrive through the environment variable
// VF_ARGS (one argument per line).  A finding outside the excluded set is written as a replay file and recorded in
// the evidence fragment; the campaign goes on with that signature excluded (no trap needed: the oracle is inside the
// target).  The case about to run is saved first, so a sanitizer abort leaves its input behind for the driver.
template<class Case>
struct FuzzState {
   Options o;
   Hooks<Case> hk;
   Tally tally;
   CurrentCase* current = nullptr;
   double t0 = 0;
   long since_flush = 0;
};

template<class Case>
inline FuzzState<Case>*& fuzz_state()
{
   static FuzzState<Case>* st = nullptr;
   return st;
}

template<class Case>
int fuzz_one(const std::uint8_t* data, std::size_t size, const char* prop, Hooks<Case> (*make)(const Options&),
             bool (*decode)(const std::uint8_t*, std::size_t, const Options&, Case&))
{
   auto*& st = fuzz_state<Case>();
   if (!st) {
      std::vector<std::string> args{"fuzz"};
      if (const char* env = std::getenv("VF_ARGS")) {
         std::istringstream is(env);
         std::string line;
         while (std::getline(is, line)) args.push_back(line);
      }
      std::vector<char*> argv;
      for (auto& a : args) argv.push_back(a.data());
      st = new FuzzState<Case>();   // never freed: used by the atexit flush
      st->o = parse_options(int(argv.size()), argv.data(), prop);
      st->hk = make(st->o);
      st->tally.excluded = st->o.known;
      st->current = new CurrentCase(st->o.out.empty() ? std::string() : st->o.out + ".current");
      st->t0 = now_s();
      st->tally.notes["engine"] = "libFuzzer (coverage-guided mutation of the script bytes), semantic oracle inside the target";
      std::atexit([] {
         if (auto* s = fuzz_state<Case>()) write_fragment(s->o, s->tally, now_s() - s->t0);
      });
   }
   Case c{};
   if (!decode(data, size, st->o, c)) return -1;   // not added to the corpus
   const std::string text = st->hk.to_text(c);
   st->current->put(text);
   Outcome out;
   try {
      out = st->hk.run(c, st->o);
   }
   catch (const std::exception& e) {
      out.fail(std::string(prop) + ":unexpected-exception:" + sanitize(typeid(e).name()), e.what());
   }
   Tally& tally = st->tally;
   ++tally.evaluations;
   if (out.nontrivial) {
      tally.nontrivial_hashes.insert(fnv1a(text));
      if (tally.samples.size() < 3) tally.samples.push_back(st->hk.sample ? st->hk.sample(c) : text);
   }
   for (auto& [k, v] : out.classes) {
      merge_class(tally.classes, k, v);
      if (v > 0) ++tally.class_cases[k];
   }
   bool fresh = false;
   for (auto& f : out.findings) {
      if (tally.excluded.count(f.signature)) {
         if (++tally.excluded_hits[f.signature] == 1) tally.excluded_example[f.signature] = f.message;
         continue;
      }
      const std::string path = (st->o.replay_dir.empty() ? std::string(".") : st->o.replay_dir) + "/fuzz-" + std::to_string(st->o.shard) + "-" + sanitize(f.signature) + ".case";
      write_file(path, text);
      tally.violations.push_back({f.signature, f.message, path});
      tally.excluded.insert(f.signature);
      std::fprintf(stderr, "[%s] new signature %s -- %s\n", prop, f.signature.c_str(), f.message.c_str());
      fresh = true;
   }
   if (fresh || ++st->since_flush >= 5000) {
      st->since_flush = 0;
      write_fragment(st->o, tally, now_s() - st->t0);
   }
   return 0;
}

#ifdef VF_FUZZ
#define VF_MAIN(CaseT, PROP, MAKE, DECODE)                                                                                  \
   extern "C" int LLVMFuzzerTestOneInput(const std::uint8_t* d, std::size_t n) { return vf::fuzz_one<CaseT>(d, n, PROP, MAKE, DECODE); }
#else
#define VF_MAIN(CaseT, PROP, MAKE, DECODE)                                                                                  \
   int main(int argc, char** argv)                                                                                          \
   {                                                                                                                        \
      (void)DECODE;                                                                                                         \
      const vf::Options o0 = vf::parse_options(argc, argv, PROP);                                                           \
      return vf::drive<CaseT>(argc, argv, PROP, MAKE(o0));                                                                  \
   }
#endif

// Generators that do not collapse at small sizes.
template<class T>
inline rc::Gen<T> in_range(T lo, T hi_exclusive)
{
   return rc::gen::resize(100, rc::gen::inRange<T>(lo, hi_exclusive));
}

inline rc::Gen<std::uint8_t> byte()
{
   return rc::gen::map(rc::gen::resize(100, rc::gen::inRange<int>(0, 256)), [](int x) { return std::uint8_t(x); });
}

}   // namespace vf
