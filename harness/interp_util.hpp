// Small helpers shared by the op implementations and the oracles.
#pragma once
#include "engine.hpp"

namespace eng {

inline std::string P(const void* p)
{
   char b[32];
   std::snprintf(b, sizeof b, "%p", p);
   return b;
}
inline Val N(const ipr::Node& n) { return Val::node(n); }
inline Val U(std::uint64_t x) { return Val::number(x); }
inline Entity ent(const ipr::Node& n) { return Entity{Aux::None, &n}; }
inline std::string bytes(const std::u8string& s) { return std::string(reinterpret_cast<const char*>(s.data()), s.size()); }
inline std::string chars(const ipr::String& s)
{
   auto w = s.characters();
   return std::string(reinterpret_cast<const char*>(w.data()), w.size());
}
inline std::string printable(const std::string& s)
{
   std::string r;
   for (unsigned char c : s) {
      if (c >= 0x20 && c < 0x7f && c != '\\') r += char(c);
      else {
         char b[8];
         std::snprintf(b, sizeof b, "\\x%02x", c);
         r += b;
      }
   }
   return r;
}
inline std::string spelled(const ipr::Linkage& l) { return chars(l.language().what()); }
inline std::string spelled(const ipr::Calling_convention& c) { return chars(c.name().what()); }
inline std::string xkey(const ipr::Transfer& t) { return spelled(t.linkage()) + "\x1f" + spelled(t.convention()); }
inline bool is_natural(const ipr::Transfer& t) { return spelled(t.linkage()) == "C++" && spelled(t.convention()).empty(); }
template<class T>
inline Val opt_node(ipr::Optional<T> o) { return o.is_valid() ? N(o.get()) : Val::absent(); }

}   // namespace eng
