// Oracles over a finished (or running) World.  Each reports through
// World::findings, which keeps only the signatures of the selected property.
#include "categories.hpp"
#include "interp_util.hpp"

#include <typeinfo>
#include <unordered_set>

namespace eng {
using namespace ipr;

namespace {

Val actual_type(const Expr& e)
{
   try {
      return Val::node(e.type());
   }
   catch (const std::logic_error&) {
      return Val::throws();
   }
}

// every node known to the harness plus the nodes one accessor away from them
std::vector<const Node*> collect_nodes(World& w, bool neighbours)
{
   std::vector<const Node*> out;
   std::unordered_set<const void*> seen;
   auto add = [&](const Node* n) {
      if (n && seen.insert(n).second) out.push_back(n);
   };
   for (auto& r : w.log)
      if (r.ent.aux == Aux::None) add(r.ent.node());
   for (auto& c : w.constants)
      if (c.aux == Aux::None) add(c.node());
   if (neighbours) {
      const std::size_t n0 = out.size();
      for (std::size_t i = 0; i < n0; ++i) {
         Obs o = observe(Entity{Aux::None, out[i]});
         std::function<void(const Val&)> walk = [&](const Val& v) {
            if (v.kind == Val::Ref && v.is_node) add(static_cast<const Node*>(v.ref));
            for (auto& x : v.seq) walk(x);
         };
         for (auto& f : o) walk(f.val);
      }
      // overload sets found by looking names up
      for (auto& sm : w.scopes)
         for (auto di : sm.decls) {
            auto ov = (*sm.scope)[*w.decls[di].name];
            if (ov.is_valid()) add(&ov.get());
         }
   }
   return out;
}

}   // namespace

// ------------------------------------------------------------ C01 / C04 -----
void oracle_unification_final(World& w)
{
   std::set<std::string> done;
   const std::size_t n = w.log.size();
   for (std::size_t i = 0; i < n; ++i) {
      if (w.log[i].key.empty() || !w.log[i].again) continue;
      if (!done.insert(w.log[i].key).second) continue;
      const std::string key = w.log[i].key;
      const std::string factory = w.log[i].factory;
      const int table = w.log[i].table;
      auto again = w.log[i].again;
      Entity e = again();
      auto it = w.first_by_key.find(key);
      if (it != w.first_by_key.end() && !(it->second == e))
         w.findings.fail(std::string(table_prop(table)) + ":repeat-differs:" + factory,
                         "final re-request of " + printable(key) + " returned " + P(e.ptr) + ", first answer was " + P(it->second.ptr));
      w.findings.count("final_rerequests");
   }
}

void oracle_identifier_census(World& w)
{
   std::map<std::string, std::set<const void*>> by_spelling;
   std::set<std::string> reserved;
   auto add = [&](const Node& n, bool is_reserved) {
      if (auto id = util::view<Identifier>(n)) {
         const std::string sp = chars(id->string());
         by_spelling[sp].insert(static_cast<const Node*>(id));
         if (is_reserved) reserved.insert(sp);
      }
   };
   for (auto& c : w.constants)
      if (c.aux == Aux::None) {
         if (auto t = util::view<As_type>(*c.node())) add(t->name(), true);
         if (auto s = util::view<Symbol>(*c.node())) add(s->name(), true);
      }
   add(w.L().default_value().type().name(), true);   // `auto`
   if (w.this_ident) add(*w.this_ident, true);
   for (auto n : collect_nodes(w, true)) add(*n, false);
   for (auto& [sp, set] : by_spelling)
      if (set.size() > 1)
         w.findings.fail(std::string("C04:identifier-duplicated:") + (reserved.count(sp) ? "reserved-word" : "ordinary"),
                         "spelling " + printable(sp) + " has " + std::to_string(set.size()) + " Identifier nodes");
   w.findings.count("census_spellings", long(by_spelling.size()));
   w.findings.count("census_reserved_spellings_requested", long(reserved.size()));
}

void oracle_value_equality(World& w)
{
   auto report = [&](const char* what, const std::string& msg) {
      w.findings.fail(std::string("C04:value-equality:") + what, msg);
      w.findings.fail(std::string("C15:equality:") + what, msg);
   };
   auto cap = [](std::size_t n) { return std::min<std::size_t>(n, 160); };
   for (std::size_t i = 0; i < cap(w.linkages.size()); ++i)
      for (std::size_t j = 0; j < cap(w.linkages.size()); ++j) {
         auto &a = *w.linkages[i], &b = *w.linkages[j];
         const bool same = spelled(a) == spelled(b);
         if ((a == b) != same) report("Linkage", printable(spelled(a)) + " vs " + printable(spelled(b)));
         if ((a != b) == (a == b)) report("Linkage", "!= is not the negation of ==");
         w.findings.count(same ? "equal_pairs" : "unequal_pairs");
      }
   for (std::size_t i = 0; i < cap(w.convs.size()); ++i)
      for (std::size_t j = 0; j < cap(w.convs.size()); ++j) {
         auto &a = *w.convs[i], &b = *w.convs[j];
         const bool same = spelled(a) == spelled(b);
         if ((a == b) != same) report("Calling_convention", printable(spelled(a)) + " vs " + printable(spelled(b)));
         if ((a != b) == (a == b)) report("Calling_convention", "!= is not the negation of ==");
      }
   for (std::size_t i = 0; i < cap(w.transfers.size()); ++i)
      for (std::size_t j = 0; j < cap(w.transfers.size()); ++j) {
         auto &a = *w.transfers[i], &b = *w.transfers[j];
         // "spelled the same": by the spellings the transfers were requested with (what they report about themselves is C02's business)
         auto sa = w.transfer_spelled.find(&a), sb = w.transfer_spelled.find(&b);
         const std::string ka = sa != w.transfer_spelled.end() ? sa->second : xkey(a), kb = sb != w.transfer_spelled.end() ? sb->second : xkey(b);
         const bool same = ka == kb;
         if ((a == b) != same) report("Transfer", printable(ka) + " vs " + printable(kb));
         if ((a != b) == (a == b)) report("Transfer", "!= is not the negation of ==");
      }
   for (std::size_t i = 0; i < cap(w.logos.size()); ++i)
      for (std::size_t j = 0; j < cap(w.logos.size()); ++j) {
         auto &a = *w.logos[i], &b = *w.logos[j];
         const bool same = chars(a.what()) == chars(b.what());
         if ((a == b) != same) report("Logogram", printable(chars(a.what())) + " vs " + printable(chars(b.what())));
         if ((a != b) == (a == b)) report("Logogram", "!= is not the negation of ==");
      }
   // basic specifiers / qualifiers: equal exactly for equal spellings -- over every Logogram this Lexicon hands out by any
   // route: get_logogram, the names of its calling conventions (the natural one included), the languages of its linkages,
   // and the logograms of its basic specifiers and qualifiers
   {
      std::vector<const Logogram*> all;
      std::set<const Logogram*> seen;
      auto add = [&](const Logogram& l) {
         if (all.size() < 200 && seen.insert(&l).second) all.push_back(&l);
      };
      add(impl::cxx_transfer().convention().name());
      add(w.L().cxx_linkage().language());
      add(w.L().c_linkage().language());
      for (auto& b : w.L().decompose(Specifiers{0x3ffff})) add(b.logogram());
      for (auto& b : w.L().decompose(Qualifiers{7})) add(b.logogram());
      for (auto c : w.convs) add(c->name());
      for (auto l : w.linkages) add(l->language());
      for (auto l : w.logos) add(*l);
      for (auto a : all)
         for (auto b : all) {
            const bool same = chars(a->what()) == chars(b->what());
            const Basic_specifier sa{*a}, sb{*b};
            const Basic_qualifier qa{*a}, qb{*b};
            if ((sa == sb) != same || (sa != sb) == same) w.findings.fail("C15:equality:Basic_specifier", printable(chars(a->what())) + " vs " + printable(chars(b->what())));
            if ((qa == qb) != same || (qa != qb) == same) w.findings.fail("C15:equality:Basic_qualifier", printable(chars(a->what())) + " vs " + printable(chars(b->what())));
            if ((*a == *b) != same || (*a != *b) == same) report("Logogram", printable(chars(a->what())) + " vs " + printable(chars(b->what())));
            w.findings.count(same ? "equal_logogram_pairs" : "unequal_logogram_pairs");
         }
   }
}

// ------------------------------------------------------------------ C02 -----
void oracle_readback(World& w)
{
   const std::size_t n = w.log.size();
   std::set<std::string> factories;
   for (std::size_t i = 0; i < n; ++i) {
      const Rec& r = w.log[i];
      if (r.expect.empty()) continue;
      Obs o = observe(r.ent);
      factories.insert(r.factory);
      int distinguishable = 0;
      for (auto& f : r.expect) {
         const Val* got = find(o, f.name);
         if (!got) {
            w.findings.fail("C02:accessor-not-observed:" + r.factory + "." + f.name, "the observer has no accessor of that name for this node");
            continue;
         }
         Val want = f.val;
         if (want.kind == Val::TypeOf) want = actual_type(*static_cast<const Expr*>(want.ref));
         if (want.kind == Val::Ref) ++distinguishable;
         w.findings.count("fields_compared");
         if (!(want == *got)) {
            w.findings.fail("C02:field-mismatch:" + r.factory + "." + f.name, "expected " + want.show() + " got " + got->show());
            if (f.name == "type") w.findings.fail("C09:type-rule:" + r.factory, "expected " + want.show() + " got " + got->show());
         }
      }
      if (r.want_cat != Category_code::Unknown && r.ent.aux == Aux::None && r.ent.node()->category != r.want_cat)
         w.findings.fail("C02:category:" + r.factory, std::string("node reports ") + category_name(r.ent.node()->category));
      if (distinguishable >= 2) w.findings.count("records_with_2_distinct_operands");
   }
   w.counters["factories_checked"] = long(factories.size());
}

// ------------------------------------------------------------------ C09 -----
namespace {
template<class Elems>
void check_sequence_type(World& w, const char* what, const Expr& owner, const Elems& elems)
{
   // type() is a Product of size() elements, element i being the type of element i
   const Type* t = nullptr;
   try {
      t = &owner.type();
   }
   catch (const std::logic_error&) {
      w.findings.fail(std::string("C09:sequence-type:") + what, "type() refused");
      return;
   }
   auto prod = util::view<Product>(*t);
   if (!prod) {
      w.findings.fail(std::string("C09:sequence-type:") + what, std::string("type() is a ") + category_name(t->category));
      return;
   }
   if (prod->size() != elems.size()) {
      w.findings.fail(std::string("C09:sequence-type:") + what, "product has " + std::to_string(prod->size()) + " elements for " + std::to_string(elems.size()) + " members");
      return;
   }
   for (std::size_t i = 0; i < elems.size(); ++i) {
      Val want = actual_type(*elems.position(i));
      Val got;
      try {
         got = Val::node((*prod)[i]);
      }
      catch (const std::logic_error&) {
         got = Val::throws();
      }
      if (!(want == got)) {
         w.findings.fail(std::string("C09:sequence-type:") + what, "element " + std::to_string(i) + ": expected " + want.show() + " got " + got.show());
         return;
      }
   }
   w.findings.count("sequence_types_checked");
   if (elems.size() >= 2) w.findings.count("sequence_types_with_2_members");
}
}   // namespace

void oracle_types(World& w)
{
   auto& L = w.L();
   const std::size_t n = w.log.size();
   int groups[4] = {0, 0, 0, 0};
   for (std::size_t i = 0; i < n; ++i) {
      const Rec& r = w.log[i];
      const Val* want0 = find(r.expect, "type");
      if (!want0 || r.ent.aux != Aux::None) continue;
      Val want = *want0;
      int group = want.kind == Val::TypeOf ? 1 : (want.kind == Val::Throws ? 3 : 2);
      if (want.kind == Val::TypeOf) want = actual_type(*static_cast<const Expr*>(want.ref));
      Obs o = observe(r.ent);
      const Val* got = find(o, "type");
      if (!got) continue;
      if (!(want == *got)) w.findings.fail("C09:type-rule:" + r.factory, "expected " + want.show() + " got " + got->show());
      ++groups[group];
      w.findings.count("type_rules_checked");
   }
   // kind-fixed types, from the statement, independent of the expected records
   for (auto node : collect_nodes(w, false)) {
      const Type* fixed = nullptr;
      switch (node->category) {
      case Category_code::Break:
      case Category_code::Continue:
      case Category_code::Asm: fixed = &L.void_type(); break;
      case Category_code::Static_assert:
      case Category_code::Requires:
      case Category_code::Restriction: fixed = &L.bool_type(); break;
      case Category_code::Class:
      case Category_code::Closure: fixed = &L.class_type(); break;
      case Category_code::Union: fixed = &L.union_type(); break;
      case Category_code::Enum: fixed = &L.enum_type(); break;
      case Category_code::Namespace: fixed = &L.namespace_type(); break;
      case Category_code::Array:
      case Category_code::As_type:
      case Category_code::Decltype:
      case Category_code::Tor:
      case Category_code::Function:
      case Category_code::Pointer:
      case Category_code::Ptr_to_member:
      case Category_code::Product:
      case Category_code::Qualified:
      case Category_code::Reference:
      case Category_code::Rvalue_reference:
      case Category_code::Sum:
      case Category_code::Forall:
      case Category_code::Auto: fixed = &L.typename_type(); break;
      default: break;
      }
      if (!fixed) continue;
      Obs o = observe(Entity{Aux::None, node});
      const Val* got = find(o, "type");
      if (got && !(*got == Val::node(*fixed)))
         w.findings.fail(std::string("C09:kind-fixed:") + category_name(node->category), "type() is " + got->show() + ", the kind prescribes " + Val::node(*fixed).show());
      ++groups[0];
   }
   if (!physically_same(L.delete_value().type(), L.void_type())) w.findings.fail("C09:kind-fixed:delete_value", "the deleted-definition constant is not typed void");
   if (!physically_same(L.true_value().type(), L.bool_type()) || !physically_same(L.false_value().type(), L.bool_type()))
      w.findings.fail("C09:kind-fixed:truth-value", "a truth value is not typed bool");
   {
      auto dt = util::view<Decltype>(L.nullptr_value().type());
      if (!dt || !physically_same(dt->expr(), L.nullptr_value())) w.findings.fail("C09:kind-fixed:nullptr", "nullptr is not typed decltype(nullptr)");
   }
   // sequence types track their members
   for (auto& sm : w.scopes) check_sequence_type(w, "Scope", *sm.scope, sm.scope->elements());
   for (auto pl : w.plists) check_sequence_type(w, "Parameter_list", *pl, pl->elements());
   for (auto xl : w.xlists) check_sequence_type(w, "Expr_list", *xl, xl->elements());
   for (auto e : w.enums) check_sequence_type(w, "Enum-scope", e->region().bindings(), e->region().bindings().elements());
   for (auto c : w.classes) check_sequence_type(w, "Base-scope", c->base_subobjects.bindings(), c->base_subobjects.bindings().elements());
   w.findings.count("rule_group_fixed", groups[0]);
   w.findings.count("rule_group_borrowed", groups[1]);
   w.findings.count("rule_group_given", groups[2]);
   w.findings.count("rule_group_absent", groups[3]);
}

// ------------------------------------------------------------------ C06 -----
namespace {

enum class Sink { Node, Expr, Name, Type, Directive, Stmt, Decl, Classic, None };

const char* sink_name(Sink s)
{
   static const char* const n[] = {"Node", "Expr", "Name", "Type", "Directive", "Stmt", "Decl", "Classic", "none"};
   return n[int(s)];
}

template<class T>
constexpr Sink sink_of()
{
   if (std::is_base_of_v<ipr::Decl, T>) return Sink::Decl;
   if (std::is_base_of_v<ipr::Stmt, T>) return Sink::Stmt;
   if (std::is_base_of_v<ipr::Directive, T>) return Sink::Directive;
   if (std::is_base_of_v<ipr::Type, T>) return Sink::Type;
   if (std::is_base_of_v<ipr::Name, T>) return Sink::Name;
   if (std::is_base_of_v<ipr::Expr, T>) return Sink::Expr;
   return Sink::Node;
}

struct CatInfo {
   Sink sink = Sink::None;      // nearest abstract super-category, from the class hierarchy of the interface
   bool classic = false;
   bool leaf = false;
};

const std::vector<CatInfo>& cat_info()
{
   static const std::vector<CatInfo> t = [] {
      std::vector<CatInfo> v(std::size_t(Category_code::last_code_cat) + 1);
#define X(K) v[std::size_t(Category_code::K)] = CatInfo{sink_of<ipr::K>(), std::is_base_of_v<ipr::Classic, ipr::K>, true};
      VERIF_LEAF_CATEGORIES(X)
#undef X
      return v;
   }();
   return t;
}

// overrides every hook: records which one accept() called
struct Recorder : Visitor {
   std::vector<int> hits;   // category code, or -1-sink for an abstract hook
   void visit(const ipr::Node&) override { hits.push_back(-1 - int(Sink::Node)); }
   void visit(const ipr::Expr&) override { hits.push_back(-1 - int(Sink::Expr)); }
   void visit(const ipr::Name&) override { hits.push_back(-1 - int(Sink::Name)); }
   void visit(const ipr::Type&) override { hits.push_back(-1 - int(Sink::Type)); }
   void visit(const ipr::Directive&) override { hits.push_back(-1 - int(Sink::Directive)); }
   void visit(const ipr::Stmt&) override { hits.push_back(-1 - int(Sink::Stmt)); }
   void visit(const ipr::Decl&) override { hits.push_back(-1 - int(Sink::Decl)); }
   void visit(const ipr::Classic&) override { hits.push_back(-1 - int(Sink::Classic)); }
#define X(K) void visit(const ipr::K&) override { hits.push_back(int(Category_code::K)); }
   VERIF_LEAF_CATEGORIES(X)
#undef X
};

// overrides only the pure sinks (and optionally Classic): records where a defaulted hook hands the node
struct SinkProbe : Visitor {
   std::vector<Sink> hits;
   void visit(const ipr::Node&) override { hits.push_back(Sink::Node); }
   void visit(const ipr::Expr&) override { hits.push_back(Sink::Expr); }
   void visit(const ipr::Name&) override { hits.push_back(Sink::Name); }
   void visit(const ipr::Type&) override { hits.push_back(Sink::Type); }
   void visit(const ipr::Directive&) override { hits.push_back(Sink::Directive); }
   void visit(const ipr::Stmt&) override { hits.push_back(Sink::Stmt); }
   void visit(const ipr::Decl&) override { hits.push_back(Sink::Decl); }
};
struct ClassicProbe : SinkProbe {
   using SinkProbe::visit;
   void visit(const ipr::Classic&) override { hits.push_back(Sink::Classic); }
};

}   // namespace

namespace {
// category, accept(), default hooks and view<K> of one node
void check_dispatch(World& w, const ipr::Node* n)
{
   const auto& info = cat_info();
      const auto code = n->category;
      const std::size_t ci = std::size_t(code);
      const char* cname = category_name(code);
      if (ci >= info.size() || !info[ci].leaf) {
         w.findings.fail(std::string("C06:category:") + cname, "node carries a code that is not a leaf category");
         return;
      }
      w.findings.count(std::string("cat_") + cname);
      w.findings.count(std::string("dyn_") + cname + "_" + typeid(*n).name());
      // (2) accept() calls exactly once the hook of the node's own interface
      Recorder rec;
      n->accept(rec);
      if (rec.hits.size() != 1 || rec.hits[0] != int(code))
         w.findings.fail(std::string("C06:accept-hook:") + cname, "accept() made " + std::to_string(rec.hits.size()) + " call(s), first on " +
                                                                      (rec.hits.empty() ? std::string("nothing") : (rec.hits[0] >= 0 ? std::string(category_name(Category_code(rec.hits[0]))) : std::string(sink_name(Sink(-1 - rec.hits[0]))))));
      // (3) a hook that is not overridden hands the node to its nearest abstract super-category
      SinkProbe sp;
      n->accept(sp);
      if (sp.hits.size() != 1 || sp.hits[0] != info[ci].sink)
         w.findings.fail(std::string("C06:default-hook:") + cname, std::string("arrived at ") + (sp.hits.empty() ? "nothing" : sink_name(sp.hits[0])) +
                                                                      ", the class hierarchy designates " + sink_name(info[ci].sink));
      ClassicProbe cp;
      n->accept(cp);
      const Sink want = info[ci].classic ? Sink::Classic : info[ci].sink;
      if (cp.hits.size() != 1 || cp.hits[0] != want)
         w.findings.fail(std::string("C06:default-hook-classic:") + cname, std::string("arrived at ") + (cp.hits.empty() ? "nothing" : sink_name(cp.hits[0])) +
                                                                              ", expected " + sink_name(want));
      // (4) view<K> yields the node for its own category and nothing for any other leaf category
#define X(K)                                                                                                                                        \
   {                                                                                                                                                \
      const ipr::K* p = util::view<ipr::K>(*n);                                                                                                     \
      const bool own = code == Category_code::K;                                                                                                    \
      if ((p != nullptr) != own) w.findings.fail(std::string("C06:view:") + cname, std::string("view<" #K "> ") + (p ? "answered" : "refused"));   \
      else if (p && static_cast<const ipr::Node*>(p) != n) w.findings.fail(std::string("C06:view:") + cname, "view<" #K "> returned another node");   \
   }
      VERIF_LEAF_CATEGORIES(X)
#undef X
      w.findings.count("nodes_checked");
}
}   // namespace

void oracle_categories(World& w)
{
   const auto& info = cat_info();
   for (auto& r : w.log)
      if (r.ent.aux == Aux::None && r.want_cat != Category_code::Unknown && r.ent.node()->category != r.want_cat)
         w.findings.fail(std::string("C06:category:") + category_name(r.want_cat),
                         r.factory + " returned a node whose category is " + category_name(r.ent.node()->category));
   for (auto n : collect_nodes(w, true)) check_dispatch(w, n);
}

// The answers are a function of the node alone: a node of another category built in storage that held a node before
// (the library's node classes are ordinary classes; a front end may well recycle storage between Lexicons) is seen
// as what it is now.  Every ordered pair of a dozen node classes, constructed one after the other in the same storage.
void oracle_storage_reuse(World& w)
{
   auto& L = w.L();
   const String& str = L.get_string(u8"storage_reuse");
   const Identifier& id = L.get_identifier(u8"storage_reuse");
   const Type& t = L.int_type();
   const Expr& e = L.true_value();
   struct alignas(64) Slot {
      unsigned char bytes[512];
   };
   static Slot slot;
   struct Maker {
      const char* name;
      const ipr::Node* (*make)(Slot&, const String&, const Identifier&, const Type&, const Expr&);
      void (*kill)(const ipr::Node*);
   };
#define MK(T, ARG)                                                                                                                                    \
   Maker{#T,                                                                                                                                           \
         [](Slot& s, const String& str, const Identifier& id, const Type& t, const Expr& e) -> const ipr::Node* {                                    \
            (void)str; (void)id; (void)t; (void)e;                                                                                                    \
            static_assert(sizeof(impl::T) <= sizeof s.bytes);                                                                                         \
            return new (s.bytes) impl::T(ARG);                                                                                                        \
         },                                                                                                                                           \
         [](const ipr::Node* n) { std::destroy_at(static_cast<const impl::T*>(n)); }}
   const Maker makers[] = {MK(Identifier, str), MK(Operator, str),  MK(Suffix, id),  MK(Conversion, t), MK(Ctor_name, t),        MK(Dtor_name, t), MK(Type_id, t),
                           MK(Pointer, t),      MK(Reference, t),   MK(Rvalue_reference, t),            MK(Decltype, e),         MK(Sizeof, e),    MK(Alignof, e),
                           MK(Typeid, e),       MK(Label, id)};
#undef MK
   constexpr std::size_t n = sizeof makers / sizeof makers[0];
   for (std::size_t i = 0; i < n; ++i)
      for (std::size_t j = 0; j < n; ++j) {
         if (i == j) continue;
         const ipr::Node* a = makers[i].make(slot, str, id, t, e);
         check_dispatch(w, a);
         makers[i].kill(a);
         const ipr::Node* b = makers[j].make(slot, str, id, t, e);
         check_dispatch(w, b);
         makers[j].kill(b);
         w.findings.count("storage_reuse_pairs");
      }
}

// ------------------------------------------------------------------ C07 -----
namespace {

std::string val_of_decl(const Decl* d) { return d ? P(static_cast<const Node*>(d)) : "none"; }

template<class Scope_t, class Member>
void check_homogeneous(World& w, const char* what, const Scope_t& scope, const Sequence<Member>& members, const std::vector<const Name*>& universe)
{
   auto& elems = scope.elements();
   if (elems.size() != members.size()) {
      w.findings.fail(std::string("C07:listing:") + what, "scope lists " + std::to_string(elems.size()) + " of " + std::to_string(members.size()));
      return;
   }
   // positional access to a list-backed sequence is linear: read the members once
   std::vector<const Member*> ms;
   ms.reserve(members.size());
   for (std::size_t i = 0; i < members.size(); ++i) ms.push_back(&*members.position(i));
   std::map<const Name*, const Member*> first_of;   // name -> first member carrying it
   for (std::size_t i = 0; i < ms.size(); ++i) {
      const Member& m = *ms[i];
      if (!physically_same(*elems.position(i), m)) w.findings.fail(std::string("C07:listing:") + what, "element " + std::to_string(i) + " is not member " + std::to_string(i));
      if (std::size_t(m.position()) != i) w.findings.fail(std::string("C07:position:") + what, "member " + std::to_string(i) + " reports position " + std::to_string(std::size_t(m.position())));
      if (!physically_same(m.master(), m)) w.findings.fail(std::string("C07:master:") + what, "a unique declaration is not its own master");
      if (m.decl_set().size() != 1 || !physically_same(*m.decl_set().position(0), m)) w.findings.fail(std::string("C07:decl-set:") + what, "decl-set is not the singleton");
      const Name* nm = nullptr;
      try {
         nm = &m.name();
      }
      catch (const std::logic_error&) {
         continue;   // unnamed (e.g. base of an unnamed class)
      }
      // the first member carrying that name is what lookup finds
      if (first_of.empty())
         for (std::size_t j = 0; j < ms.size(); ++j) {
            try {
               first_of.emplace(&ms[j]->name(), ms[j]);
            }
            catch (const std::logic_error&) {
            }
         }
      const Member* first = nullptr;
      if (auto it = first_of.find(nm); it != first_of.end()) first = it->second;
      if (!first) continue;
      Optional<Overload> ov;
      try {
         ov = scope[*nm];
      }
      catch (const std::logic_error&) {
         w.findings.count("lookups_refused_unnamed_member");   // another member has no name yet (e.g. a base of unnamed class type)
         continue;
      }
      if (!ov.is_valid()) {
         w.findings.fail(std::string("C07:lookup-missed:") + what, "a declared name is not found");
         continue;
      }
      auto d = ov.get()[first->type()];
      if (!d.is_valid() || !physically_same(d.get(), *first)) w.findings.fail(std::string("C07:select-by-type:") + what, "selecting by the member's type does not give the member");
      // ... and selecting by a type no member of that name was declared with gives nothing
      for (std::size_t t = 0; t < w.types.size() && t < 12 && (i < 24 || i % 16 == 0); ++t) {   // (every member of a short list, a sample of a long one)
         const Type& other = *w.types[(t * 7 + i) % w.types.size()];
         bool used = false;
         for (std::size_t j = 0; j < ms.size() && !used; ++j) {
            try {
               used = physically_same(ms[j]->name(), *nm) && physically_same(ms[j]->type(), other);
            }
            catch (const std::logic_error&) {
            }
         }
         if (used) continue;
         auto none = ov.get()[other];
         if (none.is_valid()) w.findings.fail(std::string("C07:select-by-undeclared-type:") + what, "selecting by a type the name was not declared with yields a declaration");
         w.findings.count("negative_type_selections");
      }
      w.findings.count("homogeneous_members_checked");
   }
   for (auto nm : universe) {
      bool declared = false;
      for (std::size_t j = 0; j < ms.size(); ++j) {
         try {
            if (physically_same(ms[j]->name(), *nm)) declared = true;
         }
         catch (const std::logic_error&) {
         }
      }
      bool found = false;
      try {
         found = scope[*nm].is_valid();
      }
      catch (const std::logic_error&) {
         continue;
      }
      if (found != declared) w.findings.fail(std::string(declared ? "C07:lookup-missed:" : "C07:lookup-phantom:") + what, "lookup disagrees with the members");
      if (!declared) w.findings.count("failed_lookups");
   }
}

}   // namespace

void oracle_scopes(World& w)
{
   std::vector<const Name*> universe;
   for (std::size_t i = 0; i < w.names.size() && i < 24; ++i) universe.push_back(w.names[i]);
   for (auto& sm : w.scopes) {
      const impl::Scope& sc = *sm.scope;
      auto& elems = sc.elements();
      if (elems.size() != sm.decls.size()) {
         w.findings.fail("C07:listing:Scope", "scope lists " + std::to_string(elems.size()) + " declarations, " + std::to_string(sm.decls.size()) + " were entered");
         continue;
      }
      for (std::size_t i = 0; i < sm.decls.size(); ++i)
         if (!physically_same(*elems.position(i), *w.decls[sm.decls[i]].decl)) {
            w.findings.fail("C07:listing:Scope", "element " + std::to_string(i) + " is not the declaration entered at that position");
            break;
         }
      // the scope's own helpers
      if (sc.size() != sm.decls.size()) w.findings.fail("C07:listing:Scope", "size() disagrees");
      // lookups
      std::set<const Name*> declared;
      for (auto di : sm.decls) declared.insert(w.decls[di].name);
      for (auto nm : universe) {
         const bool have = declared.count(nm) != 0;
         auto ov = sc[*nm];
         if (ov.is_valid() != have) w.findings.fail(have ? "C07:lookup-missed:Scope" : "C07:lookup-phantom:Scope", have ? "a declared name is not found" : "an undeclared name is found");
         if (!have) w.findings.count("failed_lookups");
      }
      for (std::size_t i = 0; i < sm.decls.size(); ++i) {
         const DeclH& h = w.decls[sm.decls[i]];
         const Decl& d = *h.decl;
         // first declaration entered with that name and type, and the whole decl-set in entry order
         std::vector<const Decl*> group;
         for (auto dj : sm.decls)
            if (w.decls[dj].name == h.name && w.decls[dj].type == h.type) group.push_back(w.decls[dj].decl);
         try {
            if (!physically_same(d.name(), *h.name)) w.findings.fail("C07:decl-name:" + std::string(category_name(d.category)), "name() is not the name given");
            if (!physically_same(d.type(), *h.type)) w.findings.fail("C07:decl-type:" + std::string(category_name(d.category)), "type() is not the type given");
         }
         catch (const std::logic_error& e) {
            w.findings.fail("C07:decl-name:" + std::string(category_name(d.category)), std::string("name()/type() refused: ") + e.what());
         }
         try {
            if (!physically_same(d.master(), *group.front())) w.findings.fail("C07:master:" + std::string(category_name(d.category)), "master() is not the first declaration with that name and type");
         }
         catch (const std::logic_error& e) {
            w.findings.fail("C07:master:" + std::string(category_name(d.category)), std::string("master() refused: ") + e.what());
         }
         try {
            auto& ds = d.decl_set();
            bool ok = ds.size() == group.size();
            for (std::size_t k = 0; ok && k < group.size(); ++k) ok = physically_same(*ds.position(k), *group[k]);
            if (!ok) w.findings.fail("C07:decl-set:" + std::string(category_name(d.category)), "decl_set() has " + std::to_string(ds.size()) + " members, expected " + std::to_string(group.size()) + " in entry order");
         }
         catch (const std::logic_error& e) {
            w.findings.fail("C07:decl-set:" + std::string(category_name(d.category)), std::string("decl_set() refused: ") + e.what());
         }
         auto ov = sc[*h.name];
         if (ov.is_valid()) {
            auto sel = ov.get()[*h.type];
            if (!sel.is_valid() || !physically_same(sel.get(), *group.front()))
               w.findings.fail("C07:select-by-type:Scope", "overload[type] gives " + val_of_decl(sel.is_valid() ? &sel.get() : nullptr) + ", first declaration is " + val_of_decl(group.front()));
            // a type never declared with that name selects nothing
            for (std::size_t k = 0; k < 6 && k < w.types.size(); ++k) {
               const Type* t = w.types[k];
               bool used = false;
               for (auto dj : sm.decls)
                  if (w.decls[dj].name == h.name && w.decls[dj].type == t) used = true;
               if (!used && ov.get()[*t].is_valid()) w.findings.fail("C07:select-phantom:Scope", "overload[type] answers for a type never declared with that name");
            }
         }
         w.findings.count("declarations_checked");
      }
   }
   // homogeneous scopes: parameters, enumerators, bases, handler parameters
   for (auto pl : w.plists) check_homogeneous(w, "Parameter_list", pl->region().bindings(), pl->elements(), universe);
   for (auto e : w.enums) check_homogeneous(w, "Enum", e->region().bindings(), e->members(), universe);
   for (auto c : w.classes) check_homogeneous(w, "Bases", c->base_subobjects.bindings(), c->bases(), {});
   for (auto h : w.handlers) {
      const Region& ehr = static_cast<const Handler*>(h)->body().region().enclosing();
      auto& sc = ehr.bindings();
      if (sc.size() != 1 || !physically_same(*sc.elements().position(0), h->exception()))
         w.findings.fail("C07:listing:Handler", "the handler region does not bind exactly the exception parameter");
      else {
         auto& ex = h->exception();
         auto ov = sc[ex.name()];
         if (!ov.is_valid()) w.findings.fail("C07:lookup-missed:Handler", "the exception parameter is not found by name");
         else {
            auto d = ov.get()[ex.type()];
            if (!d.is_valid() || !physically_same(d.get(), ex)) w.findings.fail("C07:select-by-type:Handler", "selecting by type does not give the exception parameter");
            for (std::size_t t = 0; t < w.types.size() && t < 12; ++t) {
               const Type& other = *w.types[t];
               if (physically_same(other, ex.type())) continue;
               if (ov.get()[other].is_valid()) w.findings.fail("C07:select-by-undeclared-type:Handler", "selecting by another type yields the exception parameter");
               w.findings.count("negative_type_selections");
            }
         }
         if (!physically_same(ex.master(), ex) || ex.decl_set().size() != 1) w.findings.fail("C07:master:Handler", "the exception parameter is not its own singleton decl-set");
      }
   }
}

// ------------------------------------------------------------------ C12 -----
void oracle_regions(World& w)
{
   std::map<const Region*, const RegionModel*> model;
   for (auto& m : w.region_models) model[m.region] = &m;
   for (auto& m : w.region_models) {
      const Region& r = *m.region;
      const std::string tag = m.opener;
      // enclosing region and the global flag
      if (m.parent) {
         try {
            if (!physically_same(r.enclosing(), *m.parent)) w.findings.fail("C12:enclosing:" + tag, "enclosing() is not the region it was created in");
         }
         catch (const std::logic_error&) {
            w.findings.fail("C12:enclosing:" + tag, "enclosing() refused for a nested region");
         }
         if (r.global()) w.findings.fail("C12:global-flag:" + tag, "a nested region reports itself global");
      }
      else {
         if (!r.global()) w.findings.fail("C12:global-flag:" + tag, "the root region does not report itself global");
      }
      // walking outward reaches the root in exactly `depth` steps
      const Region* cur = &r;
      int steps = 0;
      bool ok = true;
      while (!cur->global()) {
         try {
            cur = &cur->enclosing();
         }
         catch (const std::logic_error&) {
            ok = false;
            break;
         }
         if (++steps > m.depth + 2) {
            ok = false;
            break;
         }
      }
      if (!ok || steps != m.depth) w.findings.fail("C12:walk-to-root:" + tag, "reached the root in " + std::to_string(steps) + " steps, depth is " + std::to_string(m.depth));
      else {
         auto rm = model.find(cur);
         if (rm == model.end() || rm->second->parent != nullptr) w.findings.fail("C12:walk-to-root:" + tag, "the walk ended in a region that is not a unit's global region");
      }
      // owner
      if (m.owner_specified) {
         auto o = r.owner();
         if (!o.is_valid()) w.findings.fail("C12:owner:" + tag, "the region names no owner");
         else if (static_cast<const Node*>(&o.get()) != m.owner) w.findings.fail("C12:owner:" + tag, "the region names another node as its owner");
         w.findings.count("owners_checked");
      }
      w.findings.count("regions_checked");
   }
   // parameters, enumerators and bases: home region, nesting level, zero-based position
   for (auto pl : w.plists) {
      auto& ps = pl->elements();
      for (std::size_t i = 0; i < ps.size(); ++i) {
         auto& p = *ps.position(i);
         if (std::size_t(p.position()) != i) w.findings.fail("C12:position:Parameter", "parameter " + std::to_string(i) + " reports position " + std::to_string(std::size_t(p.position())));
         if (p.level() != pl->level()) w.findings.fail("C12:level:Parameter", "parameter level differs from its list's level");
         if (!physically_same(p.home_region(), pl->region())) w.findings.fail("C12:home-region:Parameter", "home region is not the list's region");
      }
   }
   for (auto e : w.enums) {
      auto& ms = e->members();
      for (std::size_t i = 0; i < ms.size(); ++i) {
         auto& m = *ms.position(i);
         if (std::size_t(m.position()) != i) w.findings.fail("C12:position:Enumerator", "enumerator " + std::to_string(i) + " reports position " + std::to_string(std::size_t(m.position())));
         if (!physically_same(m.home_region(), e->region())) w.findings.fail("C12:home-region:Enumerator", "home region is not the enumeration's region");
      }
   }
   for (auto c : w.classes) {
      auto& bs = c->bases();
      for (std::size_t i = 0; i < bs.size(); ++i) {
         auto& b = *bs.position(i);
         if (std::size_t(b.position()) != i) w.findings.fail("C12:position:Base_type", "base " + std::to_string(i) + " reports position " + std::to_string(std::size_t(b.position())));
         if (!physically_same(b.home_region(), c->base_subobjects)) w.findings.fail("C12:home-region:Base_type", "home region is not the class's base region");
      }
   }
   // handlers: body enclosed by a region binding exactly the exception parameter, itself enclosed by the region enclosing the guarded block
   for (auto& bh : w.blocks) {
      if (!bh.full) continue;
      auto& hs = bh.blk->handlers();
      for (std::size_t i = 0; i < hs.size(); ++i) {
         auto& h = *hs.position(i);
         const Region& ehr = h.body().region().enclosing();
         if (ehr.bindings().size() != 1 || !physically_same(*ehr.bindings().elements().position(0), h.exception()))
            w.findings.fail("C12:handler-region", "the region enclosing a handler body does not bind exactly its exception parameter");
         if (!physically_same(ehr.enclosing(), bh.blk->region().enclosing())) w.findings.fail("C12:handler-region", "the handler's parameter region is not enclosed by the region enclosing the guarded block");
         w.findings.count("handlers_checked");
      }
   }
   // units
   auto check_unit = [&](const Translation_unit& u, const Module* parent, const Module_unit* mu) {
      auto& ns = u.global_namespace();
      auto id = util::view<Identifier>(ns.name());
      if (!id || id->string().size() != 0) w.findings.fail("C12:global-namespace:name", "the global namespace is not unnamed");
      if (!physically_same(ns.type(), w.L().namespace_type())) w.findings.fail("C12:global-namespace:type", "the global namespace is not typed `namespace`");
      if (!ns.region().global()) w.findings.fail("C12:global-namespace:region", "the global namespace's region is not global");
      if (parent && mu && &mu->parent_module() != parent) w.findings.fail("C12:module-link", "a module unit does not link back to its module");
      w.findings.count("units_checked");
   };
   for (auto& u : w.units) check_unit(u, nullptr, nullptr);
   for (auto& m : w.modules) {
      check_unit(m.iface, &m, &m.iface);
      if (&m.interface_unit() != static_cast<const Interface_unit*>(&m.iface)) w.findings.fail("C12:module-link", "interface_unit() is not the module's interface unit");
      auto& us = m.implementation_units();
      for (std::size_t i = 0; i < us.size(); ++i) check_unit(*us.position(i), &m, &*us.position(i));
   }
}

// ------------------------------------------------------------------ C14 -----
void oracle_accessors(World& w, bool all)
{
   ObsStats st;
   std::vector<Entity> ents;
   if (all) {
      for (auto n : collect_nodes(w, true)) ents.push_back(Entity{Aux::None, n});
      for (auto& r : w.log)
         if (r.ent.aux != Aux::None) ents.push_back(r.ent);
      for (auto& c : w.constants)
         if (c.aux != Aux::None) ents.push_back(c);
   }
   else {
      const std::size_t from = w.log.size() > 24 ? w.log.size() - 24 : 0;
      for (std::size_t i = from; i < w.log.size(); ++i) ents.push_back(w.log[i].ent);
   }
   for (auto& e : ents) {
      Obs o = observe(e, &st, true);
      for (auto& f : o)
         if (f.name == "<abstract-sink>") w.findings.fail("C14:abstract-sink:" + f.val.text, "accept() handed a node to an abstract hook");
   }
   for (auto& s : st.foreign_where) {
      const auto colon = s.find(": ");
      w.findings.fail("C14:foreign-exception:" + s.substr(0, colon), s);
   }
   for (auto& s : st.mistyped) {
      const auto colon = s.find(": ");
      w.findings.fail("C14:mistyped-result:" + s.substr(0, colon), s);
   }
   for (auto& s : st.seq_bad) {
      const auto colon = s.find(": ");
      w.findings.fail("C14:sequence-protocol:" + s.substr(0, colon), s);
      w.findings.fail("C15:sequence-helpers:" + s.substr(0, colon), s);
   }
   w.findings.count("accessor_calls", st.accessors);
   w.findings.count("refusals", st.refused);
   w.findings.count("out_of_range_refused", st.oob_refused);
   w.findings.count("entities_observed", long(ents.size()));
}

// ------------------------------------------------------------------ C15 -----
namespace {
template<class A, class B>
bool same_seq(const Sequence<A>& a, const Sequence<B>& b)
{
   if (a.size() != b.size()) return false;
   for (std::size_t i = 0; i < a.size(); ++i)
      if (static_cast<const void*>(&*a.position(i)) != static_cast<const void*>(&*b.position(i))) return false;
   return true;
}
}   // namespace

namespace {
struct DerivedChecker : Constant_visitor<No_op> {
   World& w;
   explicit DerivedChecker(World& ww) : w(ww) { }
   using Constant_visitor<No_op>::visit;
   template<class T>
   void seq_helpers(const char* what, const T& n)
   {
      if (n.size() != n.elements().size()) w.findings.fail(std::string("C15:size:") + what, "size() differs from elements().size()");
      w.findings.count(n.size() == 0 ? "empty_sequences" : (n.size() >= 3 ? "many_element_sequences" : "small_sequences"));
   }
   void visit(const Product& n) final
   {
      seq_helpers("Product", n);
      for (std::size_t i = 0; i < n.size(); ++i) {
         // an element may legitimately refuse (a member without a type): then both routes must refuse
         Val a, b;
         try { a = Val::node(n[i]); } catch (const std::logic_error&) { a = Val::throws(); }
         try { b = Val::node(*n.elements().position(i)); } catch (const std::logic_error&) { b = Val::throws(); }
         if (!(a == b)) w.findings.fail("C15:index:Product", "operator[] differs from elements().position()");
      }
   }
   void visit(const Sum& n) final
   {
      seq_helpers("Sum", n);
      for (std::size_t i = 0; i < n.size(); ++i) {
         Val a, b;
         try { a = Val::node(n[i]); } catch (const std::logic_error&) { a = Val::throws(); }
         try { b = Val::node(*n.elements().position(i)); } catch (const std::logic_error&) { b = Val::throws(); }
         if (!(a == b)) w.findings.fail("C15:index:Sum", "operator[] differs from elements().position()");
      }
   }
   void visit(const Expr_list& n) final { seq_helpers("Expr_list", n); }
   void visit(const Scope& n) final
   {
      seq_helpers("Scope", n);
      std::size_t k = 0;
      for (auto it = n.begin(); it != n.end(); ++it, ++k)
         if (k >= n.size() || !physically_same(*it, *n.elements().position(k))) {
            w.findings.fail("C15:iteration:Scope", "begin()/end() disagree with elements()");
            break;
         }
      if (k != n.size()) w.findings.fail("C15:iteration:Scope", "begin()/end() visit a different number of declarations");
   }
   void visit(const Parameter_list& n) final
   {
      seq_helpers("Parameter_list", n);
      std::size_t k = 0;
      for (auto it = n.begin(); it != n.end(); ++it, ++k)
         if (k >= n.size() || !physically_same(*it, *n.elements().position(k))) {
            w.findings.fail("C15:iteration:Parameter_list", "begin()/end() disagree with elements()");
            break;
         }
      if (k != n.size()) w.findings.fail("C15:iteration:Parameter_list", "begin()/end() visit a different number of parameters");
   }
   template<class U>
   void udt(const char* what, const U& n)
   {
      if (&n.scope() != &n.region().bindings()) w.findings.fail(std::string("C15:udt-scope:") + what, "scope() is not region().bindings()");
   }
   void visit(const Class& n) final
   {
      udt("Class", n);
      if (!same_seq(n.members(), n.scope().elements())) w.findings.fail("C15:udt-members:Class", "members() differ from scope().elements()");
   }
   void visit(const Union& n) final
   {
      udt("Union", n);
      if (!same_seq(n.members(), n.scope().elements())) w.findings.fail("C15:udt-members:Union", "members() differ from scope().elements()");
   }
   void visit(const Namespace& n) final
   {
      udt("Namespace", n);
      if (!same_seq(n.members(), n.scope().elements())) w.findings.fail("C15:udt-members:Namespace", "members() differ from scope().elements()");
   }
   void visit(const Enum& n) final
   {
      udt("Enum", n);
      if (!same_seq(n.members(), n.scope().elements())) w.findings.fail("C15:udt-members:Enum", "members() differ from scope().elements()");
   }
   void visit(const Closure& n) final { udt("Closure", n); }
   void visit(const Block& n) final
   {
      if (!same_seq(n.body(), n.region().body())) w.findings.fail("C15:block-body", "body() differs from region().body()");
      const bool has = n.handlers().size() > 0;
      if (n.try_block() != has) w.findings.fail("C15:try_block", std::string("try_block() is ") + (n.try_block() ? "true" : "false") + " with " + std::to_string(n.handlers().size()) + " handlers");
      w.findings.count(has ? "blocks_with_handlers" : "blocks_without_handlers");
   }
   void visit(const Template& n) final
   {
      Val a, b, c, d;
      try { a = Val::node(n.parameters()); } catch (const std::logic_error&) { a = Val::throws(); }
      try { b = Val::node(n.mapping().parameters()); } catch (const std::logic_error&) { b = Val::throws(); }
      try { c = Val::node(n.result()); } catch (const std::logic_error&) { c = Val::throws(); }
      try { d = Val::node(n.mapping().result()); } catch (const std::logic_error&) { d = Val::throws(); }
      if (!(a == b)) w.findings.fail("C15:template-parameters", "parameters() differs from mapping().parameters()");
      if (!(c == d)) w.findings.fail("C15:template-result", "result() differs from mapping().result()");
      w.findings.count("templates_checked");
   }
   void visit(const Parameter& n) final
   {
      auto a = n.default_value(), b = n.initializer();
      if (a.is_valid() != b.is_valid() || (a.is_valid() && &a.get() != &b.get())) w.findings.fail("C15:default_value", "default_value() differs from initializer()");
      w.findings.count("parameters_checked");
   }
   void visit(const String& n) final
   {
      auto c = n.characters();
      if (n.size() != c.size() || n.begin() != c.begin() || n.end() != c.end()) w.findings.fail("C15:string-helpers", "size()/begin()/end() disagree with characters()");
   }
   void visit(const Type& n) final
   {
      if (&n.linkage() != &n.transfer().linkage()) w.findings.fail("C15:type-linkage", "linkage() is not transfer().linkage()");
      w.findings.count("types_checked");
   }
};
}   // namespace

void oracle_derived(World& w)
{
   DerivedChecker v{w};
   for (auto n : collect_nodes(w, true)) n->accept(v);
   for (auto t : w.transfers) {
      if (&t->linkage() != &t->first() || &t->convention() != &t->second()) w.findings.fail("C15:transfer-helpers", "linkage()/convention() differ from first()/second()");
   }
   oracle_value_equality(w);
}

// ------------------------------------------------------------------ C16 -----
void oracle_substitutions(World& w)
{
   std::vector<const Parameter*> qs;
   for (std::size_t i = 0; i < w.params.size() && i < 48; ++i) qs.push_back(w.params[i]);
   for (auto& [s, binding] : w.esubst_model)
      for (auto p : qs) {
         const Expr& got = (*s)[*p];
         const Expr& want = p == binding.first ? *binding.second : static_cast<const Expr&>(*p);
         if (&got != &want) w.findings.fail(p == binding.first ? "C16:elementary:inside-domain" : "C16:elementary:outside-domain", "an elementary substitution answered the wrong expression");
         w.findings.count(p == binding.first ? "queries_inside_domain" : "queries_outside_domain");
      }
   for (auto& [s, m] : w.gsubst_model)
      for (auto p : qs) {
         const Expr& got = (*s)[*p];
         auto it = m.find(p);
         const Expr& want = it != m.end() ? *it->second : static_cast<const Expr&>(*p);
         if (&got != &want) w.findings.fail(it != m.end() ? "C16:general:inside-domain" : "C16:general:outside-domain", "a general substitution answered the wrong expression");
         w.findings.count(it != m.end() ? "queries_inside_domain" : "queries_outside_domain");
      }
}


// ------------------------------------------------------------------ C13 -----
void oracle_constants(World& w)
{
   auto& L = w.L();
   struct Row {
      const char* accessor;
      const Type* type;
      const char* spelling;
   };
   const Row rows[] = {{"void_type", &L.void_type(), "void"},           {"bool_type", &L.bool_type(), "bool"},
                       {"char_type", &L.char_type(), "char"},           {"schar_type", &L.schar_type(), "signed char"},
                       {"uchar_type", &L.uchar_type(), "unsigned char"}, {"wchar_t_type", &L.wchar_t_type(), "wchar_t"},
                       {"char8_t_type", &L.char8_t_type(), "char8_t"},  {"char16_t_type", &L.char16_t_type(), "char16_t"},
                       {"char32_t_type", &L.char32_t_type(), "char32_t"}, {"short_type", &L.short_type(), "short"},
                       {"ushort_type", &L.ushort_type(), "unsigned short"}, {"int_type", &L.int_type(), "int"},
                       {"uint_type", &L.uint_type(), "unsigned int"},   {"long_type", &L.long_type(), "long"},
                       {"ulong_type", &L.ulong_type(), "unsigned long"}, {"long_long_type", &L.long_long_type(), "long long"},
                       {"ulong_long_type", &L.ulong_long_type(), "unsigned long long"}, {"float_type", &L.float_type(), "float"},
                       {"double_type", &L.double_type(), "double"},     {"long_double_type", &L.long_double_type(), "long double"},
                       {"ellipsis_type", &L.ellipsis_type(), "..."},    {"typename_type", &L.typename_type(), "typename"},
                       {"class_type", &L.class_type(), "class"},        {"union_type", &L.union_type(), "union"},
                       {"enum_type", &L.enum_type(), "enum"},           {"namespace_type", &L.namespace_type(), "namespace"}};
   constexpr int n = sizeof rows / sizeof rows[0];
   // a second Lexicon alive at the same time, and a third one created and destroyed meanwhile
   impl::Lexicon other;
   const Type* other_types[n];
   {
      impl::Lexicon third;
      (void)third.get_identifier(u8"int");
   }
   {
      const Type* t[] = {&other.void_type(),     &other.bool_type(),      &other.char_type(),       &other.schar_type(),  &other.uchar_type(),  &other.wchar_t_type(), &other.char8_t_type(),
                         &other.char16_t_type(), &other.char32_t_type(),  &other.short_type(),      &other.ushort_type(), &other.int_type(),    &other.uint_type(),    &other.long_type(),
                         &other.ulong_type(),    &other.long_long_type(), &other.ulong_long_type(), &other.float_type(),  &other.double_type(), &other.long_double_type(),
                         &other.ellipsis_type(), &other.typename_type(),  &other.class_type(),      &other.union_type(),  &other.enum_type(),   &other.namespace_type()};
      for (int i = 0; i < n; ++i) other_types[i] = t[i];
   }
   for (int i = 0; i < n; ++i) {
      const Row& r = rows[i];
      const std::string acc = r.accessor;
      for (int j = 0; j < i; ++j)
         if (rows[j].type == r.type) w.findings.fail("C13:not-distinct:" + acc, std::string("same node as ") + rows[j].accessor);
      if (other_types[i] != r.type) w.findings.fail("C13:not-process-wide:" + acc, "two Lexicon instances return different nodes");
      auto id = util::view<Identifier>(r.type->name());
      if (!id) w.findings.fail("C13:name-not-identifier:" + acc, "name() is not an Identifier");
      else if (chars(id->string()) != r.spelling) w.findings.fail("C13:spelling:" + acc, "spelled " + printable(chars(id->string())) + ", documented " + r.spelling);
      auto at = util::view<As_type>(*r.type);
      if (!at) w.findings.fail("C13:not-as-type:" + acc, "a built-in type is not an As_type node");
      else {
         if (!physically_same(at->expr(), *r.type)) w.findings.fail("C13:not-self-describing:" + acc, "expr() is not the type itself");
         if (!denote_builtin_type(*at)) w.findings.fail("C13:not-self-describing:" + acc, "denote_builtin_type() does not hold");
      }
      if (!physically_same(r.type->type(), L.typename_type())) w.findings.fail("C13:type-not-typename:" + acc, "type() is not typename");
      if (!(r.type->transfer() == impl::cxx_transfer()) || !is_natural(r.type->transfer())) w.findings.fail("C13:transfer:" + acc, "transfer() is not the natural C++ transfer");
      if (!(r.type->linkage() == L.cxx_linkage())) w.findings.fail("C13:transfer:" + acc, "linkage() is not C++");
      // route: identifier -> as-type (both identifier overloads), in this Lexicon (whatever the script did before) and in the fresh one
      std::u8string sp(reinterpret_cast<const char8_t*>(r.spelling));
      if (!physically_same(L.get_as_type(L.get_identifier(sp)), *r.type)) w.findings.fail("C13:route:identifier-as-type:" + acc, "get_as_type(get_identifier(word)) is a look-alike");
      if (!physically_same(L.get_as_type(L.get_identifier(L.get_string(sp))), *r.type)) w.findings.fail("C13:route:identifier-as-type:" + acc, "get_as_type(get_identifier(String)) is a look-alike");
      if (!physically_same(other.get_as_type(other.get_identifier(sp)), *r.type)) w.findings.fail("C13:route:identifier-as-type:" + acc, "look-alike in a second Lexicon");
      if (id && !physically_same(L.get_identifier(sp), *id)) w.findings.fail("C13:route:identifier:" + acc, "get_identifier(spelling) is not the built-in's name");
      w.findings.count("constant_checks");
   }
   // symbolic constants
   struct Sym {
      const char* accessor;
      const Symbol* sym;
      const Symbol* other_sym;
      const char* spelling;
      const Type* type;   // null: checked separately
   };
   const Sym syms[] = {{"false_value", &L.false_value(), &other.false_value(), "false", &L.bool_type()},
                       {"true_value", &L.true_value(), &other.true_value(), "true", &L.bool_type()},
                       {"nullptr_value", &L.nullptr_value(), &other.nullptr_value(), "nullptr", nullptr},
                       {"default_value", &L.default_value(), &other.default_value(), "default", nullptr},
                       {"delete_value", &L.delete_value(), &other.delete_value(), "delete", &L.void_type()}};
   for (auto& s : syms) {
      const std::string acc = s.accessor;
      for (auto& t : syms)
         if (&t != &s && t.sym == s.sym) w.findings.fail("C13:not-distinct:" + acc, std::string("same node as ") + t.accessor);
      if (s.sym != s.other_sym) w.findings.fail("C13:not-process-wide:" + acc, "two Lexicon instances return different nodes");
      auto id = util::view<Identifier>(s.sym->name());
      if (!id || chars(id->string()) != s.spelling) w.findings.fail("C13:spelling:" + acc, std::string("not spelled ") + s.spelling);
      if (s.type && !physically_same(s.sym->type(), *s.type)) w.findings.fail("C13:symbol-type:" + acc, "wrongly typed");
      std::u8string sp(reinterpret_cast<const char8_t*>(s.spelling));
      if (id && !physically_same(L.get_identifier(sp), *id)) w.findings.fail("C13:route:identifier:" + acc, "get_identifier(spelling) is not the constant's name");
   }
   {
      auto dt = util::view<Decltype>(L.nullptr_value().type());
      if (!dt || !physically_same(dt->expr(), L.nullptr_value())) w.findings.fail("C13:symbol-type:nullptr_value", "nullptr is not typed decltype(nullptr)");
      if (!physically_same(L.get_decltype(L.nullptr_value()), L.nullptr_value().type())) w.findings.fail("C13:route:get_decltype(nullptr)", "get_decltype(nullptr) is a look-alike");
      if (!physically_same(other.get_decltype(other.nullptr_value()), L.nullptr_value().type())) w.findings.fail("C13:route:get_decltype(nullptr)", "look-alike in a second Lexicon");
      if (!physically_same(L.get_label(L.get_identifier(u8"default")), L.default_value())) w.findings.fail("C13:route:get_label(default)", "get_label(identifier default) is a look-alike");
      if (!physically_same(other.get_label(other.get_identifier(u8"default")), L.default_value())) w.findings.fail("C13:route:get_label(default)", "look-alike in a second Lexicon");
   }
   // linkages
   if (&L.c_linkage() == &L.cxx_linkage()) w.findings.fail("C13:not-distinct:c_linkage", "C and C++ linkage are one node");
   if (&L.c_linkage() != &other.c_linkage() || &L.cxx_linkage() != &other.cxx_linkage()) w.findings.fail("C13:not-process-wide:linkage", "two Lexicon instances return different linkages");
   if (spelled(L.c_linkage()) != "C") w.findings.fail("C13:spelling:c_linkage", "not spelled C");
   if (spelled(L.cxx_linkage()) != "C++") w.findings.fail("C13:spelling:cxx_linkage", "not spelled C++");
   if (&L.get_linkage(u8"C") != &L.c_linkage() || &L.get_linkage(L.get_string(u8"C")) != &L.c_linkage()) w.findings.fail("C13:route:get_linkage(C)", "a look-alike of the C linkage");
   if (&L.get_linkage(u8"C++") != &L.cxx_linkage() || &L.get_linkage(L.get_string(u8"C++")) != &L.cxx_linkage()) w.findings.fail("C13:route:get_linkage(C++)", "a look-alike of the C++ linkage");
   if (&other.get_linkage(u8"C") != &L.c_linkage()) w.findings.fail("C13:route:get_linkage(C)", "look-alike in a second Lexicon");
}

// ------------------------------------------------------------------ C05 -----
void take_snapshot(World& w, Snapshot& s, std::size_t from)
{
   for (std::size_t i = from; i < w.log.size(); ++i) s.items.push_back({w.log[i].ent, observe(w.log[i].ent)});
   if (from == 0)
      for (auto& c : w.constants) s.items.push_back({c, observe(c)});
}

namespace {
bool grew(const Val& before, const Val& after)
{
   if (before.kind != Val::Seq || after.kind != Val::Seq || after.seq.size() < before.seq.size()) return false;
   for (std::size_t i = 0; i < before.seq.size(); ++i)
      if (!(before.seq[i] == after.seq[i])) return false;
   return true;
}
}   // namespace

void oracle_stability(World& w, const Snapshot& before, bool growth_allowed, const char* when, const char* signature)
{
   for (auto& [e, old] : before.items) {
      Obs now = observe(e);
      const char* cat = e.aux == Aux::None ? category_name(Category_code(find(old, "category") ? find(old, "category")->num : 0)) : "aux";
      if (now.size() != old.size()) {
         w.findings.fail(std::string(signature) + cat + ".<shape>", std::string(when) + ": the set of answers changed");
         continue;
      }
      for (std::size_t i = 0; i < old.size(); ++i) {
         if (old[i].val == now[i].val) continue;
         if (growth_allowed && grew(old[i].val, now[i].val)) {
            w.findings.count("legitimate_growth_seen");
            continue;
         }
         // scalars derived from a grown sequence: size(), and a block becoming a try-block with its first handler
         if (growth_allowed && old[i].name == "size" && old[i].val.kind == Val::Num && now[i].val.kind == Val::Num && now[i].val.num > old[i].val.num) continue;
         if (growth_allowed && old[i].name == "try_block") continue;
         w.findings.fail(std::string(signature) + cat + "." + old[i].name, std::string(when) + ": was " + old[i].val.show() + " now " + now[i].val.show());
      }
      w.findings.count("reobserved");
   }
}

// Address-free digest of everything the world created: every accessor of every logged entity, with node references
// rendered as first-visit ordinals.  Two worlds that ran the same script give the same digest whatever their addresses.
std::uint64_t structural_digest(World& w, std::vector<const void*>* node_addresses)
{
   std::unordered_map<const void*, std::size_t> ordinal;
   auto ord = [&](const void* p, bool is_node) {
      auto ins = ordinal.emplace(p, ordinal.size());
      if (ins.second && is_node && node_addresses) node_addresses->push_back(p);
      return ins.first->second;
   };
   std::uint64_t h = 1469598103934665603ull;
   auto mix = [&](const void* p, std::size_t n) { h = vf::fnv1a(p, n, h); };
   std::function<void(const Val&)> put = [&](const Val& v) {
      const std::uint8_t k = v.kind;
      mix(&k, 1);
      switch (v.kind) {
      case Val::Ref: {
         const std::size_t o = ord(v.ref, v.is_node);
         mix(&o, sizeof o);
         break;
      }
      case Val::Num: mix(&v.num, sizeof v.num); break;
      case Val::Text:
      case Val::Foreign: mix(v.text.data(), v.text.size()); break;
      case Val::Seq:
         for (auto& x : v.seq) put(x);
         break;
      default: break;
      }
   };
   for (auto& r : w.log) {
      const std::size_t o = ord(r.ent.ptr, r.ent.aux == Aux::None);
      mix(&o, sizeof o);
      for (auto& f : observe(r.ent)) {
         mix(f.name.data(), f.name.size());
         put(f.val);
      }
   }
   return h;
}

void oracle_fresh_nodes(World& w)
{
   std::unordered_map<const void*, std::string> seen;
   for (auto& r : w.log) {
      if (!r.generative) continue;
      auto ins = seen.emplace(r.ent.ptr, r.factory);
      if (!ins.second) w.findings.fail("C05:generative-alias:" + r.factory, "a generative constructor returned a node already returned by " + ins.first->second);
   }
   // and a generative node never coincides with a unified one
   for (auto& r : w.log)
      if (!r.generative && !r.key.empty() && seen.count(r.ent.ptr)) w.findings.fail("C05:generative-alias:" + r.factory, "a unified node coincides with a generative one");
}

}   // namespace eng
